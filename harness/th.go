package main

import (
	"fmt"
	"math"

	"github.com/richardmorrey/flap/pkg/flap"
)

// TripHistory-level scripts: the real flap.TripHistory is driven through its exported methods
// (plus the verif hooks for reading unexported fields); every step is recorded for the Coq model
// (Run/RunTH.v) and checked by Go-side monitors that state C05 / C07 on the real code.

const mask63 = (uint64(1) << 63) - 1

func imix(h, x uint64) uint64 { return (h*1000003 + x) & mask63 }

func fbits(x float64) uint64 {
	if x != x {
		return 0x7FF8000000000001
	}
	return math.Float64bits(x)
}

// hashFloat mirrors Run/RunTH.v hash_float: class constants, else (mantissa*2^53, exponent+2101, sign)
func hashFloat(h uint64, d float64) uint64 {
	switch {
	case d != d:
		return imix(h, 5)
	case math.IsInf(d, 1):
		return imix(h, 3)
	case math.IsInf(d, -1):
		return imix(h, 4)
	case d == 0 && !math.Signbit(d):
		return imix(h, 1)
	case d == 0:
		return imix(h, 2)
	}
	fr, e := math.Frexp(math.Abs(d))
	m := uint64(fr * (1 << 53))
	sg := uint64(8)
	if d < 0 {
		sg = 7
	}
	return imix(imix(imix(h, m), uint64(int64(e)+2101)&mask63), sg)
}

func icao(c flap.ICAOCode) uint64 {
	return uint64(c[0]) | uint64(c[1])<<8 | uint64(c[2])<<16 | uint64(c[3])<<24
}
func icaoOf(n int) flap.ICAOCode {
	var c flap.ICAOCode
	c[0] = 'A' + byte(n%26)
	c[1] = 'A' + byte((n/26)%26)
	c[2] = 'X'
	c[3] = byte(n % 7)
	return c
}

func hashFlight(h uint64, f flap.VerifFlight, withEt bool) uint64 {
	g := f
	if !withEt {
		g.Et = 0
	}
	var zero flap.VerifFlight
	if g == zero && !math.Signbit(float64(g.Distance)) {
		return imix(h, 11)
	}
	if withEt {
		h = imix(h, uint64(f.Et))
	}
	h = imix(h, uint64(f.Start)&mask63)
	h = imix(h, uint64(f.End)&mask63)
	h = imix(h, icao(f.From))
	h = imix(h, icao(f.To))
	return hashFloat(h, float64(f.Distance))
}
func hashHist(es []flap.VerifFlight, oc int) uint64 {
	h := uint64(7)
	for _, f := range es {
		h = hashFlight(h, f, true)
	}
	return imix(h, uint64(oc))
}
func hashHistNoEt(es []flap.VerifFlight) uint64 {
	h := uint64(7)
	for _, f := range es {
		h = hashFlight(h, f, false)
	}
	return h
}

func coqFlight(f flap.VerifFlight) string {
	return fmt.Sprintf("(%d, %d, %d, %d, %d, %d)", f.Et, uint64(f.Start), uint64(f.End), icao(f.From), icao(f.To), fbits(float64(f.Distance)))
}

type thParams struct {
	TL, FIT, FI int64
	Algo        byte
}

func (p thParams) coq() string {
	return fmt.Sprintf("{| TripLength := %s; FlightsInTrip := %s; FlightInterval := %s; Algo := %d |}", Z(p.TL), Z(p.FIT), Z(p.FI), p.Algo)
}
func (p thParams) real() flap.FlapParams {
	return flap.VerifTHParams(flap.Days(p.TL), uint64(p.FIT), flap.Days(p.FI), p.Algo)
}

func thErrCode(err error) int64 {
	switch err {
	case nil:
		return 0
	case flap.EFLIGHTTOOOLD:
		return 1
	case flap.EFLIGHTNOTFOUND:
		return 2
	case flap.EEMPTYTRIPHISTORY:
		return 3
	case flap.ELATESTFLIGHTNOTTRIPEND:
		return 4
	case flap.EEPOCHNOTSTARTOFDAY:
		return 5
	case flap.ENOCHANGEREQUIRED:
		return 6
	case flap.EINVALIDARGUMENT:
		return 7
	}
	return 99
}

type thOp map[string]interface{}

type thSession struct {
	th     flap.TripHistory
	coq    []string
	ops    []thOp
	mode   string // "full": markers compared; "noet": flight data and order only (C07 projection)
	oracle []flap.VerifFlight
	fails  []MonitorFailure
	// bookkeeping for monitors and non-triviality
	touchedSinceUpdate bool
	closedAfterUpdate  bool
	limitClosures      int
	closedKept         int
	maxFlights         int
	droppedOldest      int
	refusedTooOld      int
	outOfOrder         int
	ahead              int // flights reported before the day they leave
	ties               int
	removes            int
	updates            int
	ttePreserved       int
}

func (s *thSession) fail(prop, sig, what string) {
	n := 0
	for _, f := range s.fails {
		if f.Property == prop {
			n++
		}
	}
	if n < 5 {
		cp := make([]thOp, len(s.ops))
		copy(cp, s.ops)
		s.fails = append(s.fails, MonitorFailure{Property: prop, Signature: sig, What: what, Replay: cp})
	}
}

func (s *thSession) count() int {
	es := s.th.VerifEntries()
	n := 0
	for n < len(es) && es[n].Start != 0 {
		n++
	}
	return n
}

func dataEq(a, b flap.VerifFlight) bool {
	return a.Start == b.Start && a.End == b.End && a.From == b.From && a.To == b.To &&
		fbits(float64(a.Distance)) == fbits(float64(b.Distance))
}

// structural monitors of C07 on the real history
func (s *thSession) checkStructure(after string) {
	es := s.th.VerifEntries()
	n := 0
	for n < len(es) && es[n].Start != 0 {
		n++
	}
	if n > s.maxFlights {
		s.maxFlights = n
	}
	for i := 0; i+1 < n; i++ {
		if es[i].Start < es[i+1].Start {
			s.fail("C07", "history-not-newest-first", fmt.Sprintf("after %s: entry %d starts at %d, older entry %d at %d", after, i, es[i].Start, i+1, es[i+1].Start))
			return
		}
	}
	var zero flap.VerifFlight
	for i := n; i < len(es); i++ {
		if es[i] != zero {
			s.fail("C07", "stale-data-beyond-last-flight", fmt.Sprintf("after %s: slot %d beyond the %d stored flights is not empty: %+v", after, i, n, es[i]))
			return
		}
	}
	if len(s.oracle) != n {
		s.fail("C07", "flight-lost-or-duplicated", fmt.Sprintf("after %s: history holds %d flights, the ordered-list oracle %d", after, n, len(s.oracle)))
		return
	}
	for i := 0; i < n; i++ {
		if !dataEq(es[i], s.oracle[i]) {
			s.fail("C07", "flight-data-differs-from-oracle", fmt.Sprintf("after %s: entry %d is %+v, oracle has %+v", after, i, es[i], s.oracle[i]))
			return
		}
	}
}

func (s *thSession) emitChecks(rng *Rng, force bool) {
	es := s.th.VerifEntries()
	if s.mode == "noet" {
		s.coq = append(s.coq, fmt.Sprintf("TCheckHashNoEt %d", hashHistNoEt(es)))
		var ix []string
		for i, f := range es {
			if f.Et == 3 {
				ix = append(ix, fmt.Sprint(i))
			}
		}
		if force || rng.Chance(1, 3) {
			s.coq = append(s.coq, "TCheckTTE "+List(ix))
		}
		return
	}
	s.coq = append(s.coq, fmt.Sprintf("TCheckHash %d", hashHist(es, s.th.VerifOldestChange())))
	if force || rng.Chance(1, 4) {
		s.coq = append(s.coq, "TCheckMid "+Bool(s.th.MidTrip()))
		a, b, c := s.th.VerifTripStartEndLength()
		s.coq = append(s.coq, fmt.Sprintf("TCheckTSEL %d %d %d", uint64(a), uint64(b), fbits(float64(c))))
	}
	if (force || rng.Chance(1, 6)) && es[0].Start != 0 {
		j := rng.Intn(s.count() + 2)
		if j > 99 {
			j = 99
		}
		r, _ := s.th.VerifStartOfTrip(j)
		s.coq = append(s.coq, fmt.Sprintf("TCheckSOT %d %s", j, Z(int64(r))))
	}
}

func (s *thSession) emitDump() {
	es := s.th.VerifEntries()
	last := -1
	var zero flap.VerifFlight
	for i, f := range es {
		if f != zero {
			last = i
		}
	}
	var fs []string
	for i := 0; i <= last; i++ {
		f := es[i]
		if s.mode == "noet" {
			f.Et = 0
		}
		fs = append(fs, coqFlight(f))
	}
	if s.mode == "noet" {
		return // the no-marker hash already covers it
	}
	s.coq = append(s.coq, fmt.Sprintf("TCheckDump %s %d", List(fs), s.th.VerifOldestChange()))
}

func (s *thSession) add(f flap.VerifFlight, rng *Rng) int64 {
	rf := flap.VerifToFlight(f)
	// classify before the call
	n := s.count()
	es := s.th.VerifEntries()
	if n > 0 && f.Start < es[0].Start {
		s.outOfOrder++
	}
	for i := 0; i < n; i++ {
		if es[i].Start == f.Start {
			s.ties++
			break
		}
	}
	code := thErrCode(s.th.AddFlight(&rf))
	s.coq = append(s.coq, fmt.Sprintf("TAdd %s %d", coqFlight(f), code))
	s.ops = append(s.ops, thOp{"op": "add", "f": f, "res": code})
	// oracle: stable insert before every entry with Start <= f.Start, keep the newest 100
	pos := 0
	for pos < len(s.oracle) && s.oracle[pos].Start > f.Start {
		pos++
	}
	if pos >= 100 {
		if code != 1 {
			s.fail("C07", "flight-older-than-all-100-not-refused", fmt.Sprintf("flight starting %d is older than all 100 stored flights but AddFlight returned %d", f.Start, code))
		}
		s.refusedTooOld++
	} else {
		if code != 0 {
			s.fail("C07", "addable-flight-refused", fmt.Sprintf("flight starting %d belongs at index %d but AddFlight returned %d", f.Start, pos, code))
		}
		s.oracle = append(s.oracle, flap.VerifFlight{})
		copy(s.oracle[pos+1:], s.oracle[pos:])
		s.oracle[pos] = f
		if len(s.oracle) > 100 {
			s.oracle = s.oracle[:100]
			s.droppedOldest++
		}
	}
	if code == 0 {
		s.touchedSinceUpdate = true
	}
	s.checkStructure("add")
	s.emitChecks(rng, false)
	return code
}

func (s *thSession) callRemove(rf *flap.Flight) (code int64) {
	defer func() {
		if r := recover(); r != nil {
			code = 8
		}
	}()
	return thErrCode(s.th.RemoveFlight(rf))
}

// removeAt removes the flight stored at index i (exact copy, so it must be found)
func (s *thSession) removeAt(i int, rng *Rng) int64 {
	es := s.th.VerifEntries()
	f := es[i]
	rf := flap.VerifToFlight(f)
	code := s.callRemove(&rf)
	s.coq = append(s.coq, fmt.Sprintf("TRemoveAt %d %d", i, code))
	s.ops = append(s.ops, thOp{"op": "removeAt", "i": i, "f": f, "res": code})
	s.removes++
	if code == 0 {
		// which oracle entry: first with identical data and marker among equal starts = first exact match
		k := -1
		for j := 0; j < len(s.oracle); j++ {
			if es[j] == f {
				k = j
				break
			}
		}
		if k >= 0 {
			s.oracle = append(s.oracle[:k], s.oracle[k+1:]...)
		}
		s.touchedSinceUpdate = true
	} else if f.Start != 0 && code != 8 {
		s.fail("C07", "stored-flight-not-removable", fmt.Sprintf("RemoveFlight of the exact flight at index %d returned %d", i, code))
	}
	s.checkStructure("remove")
	s.emitChecks(rng, false)
	return code
}

// removeExact tries to remove a flight value (possibly absent / differing in one field)
func (s *thSession) removeExact(f flap.VerifFlight, rng *Rng) int64 {
	rf := flap.VerifToFlight(f)
	es := s.th.VerifEntries()
	code := s.callRemove(&rf)
	s.coq = append(s.coq, fmt.Sprintf("TRemove %s %d", coqFlight(f), code))
	s.ops = append(s.ops, thOp{"op": "remove", "f": f, "res": code})
	if code == 0 {
		for j := 0; j < len(s.oracle); j++ {
			if es[j] == f {
				s.oracle = append(s.oracle[:j], s.oracle[j+1:]...)
				break
			}
		}
		s.touchedSinceUpdate = true
	}
	s.checkStructure("remove")
	s.emitChecks(rng, false)
	return code
}

func openTrip(es []flap.VerifFlight) (start flap.EpochTime, n int) {
	for i := 0; i < len(es) && es[i].Start != 0 && es[i].Et != 2 && es[i].Et != 3; i++ {
		start = es[i].Start
		n++
	}
	return
}

// midByMarkers: mid-trip decided from the stored markers, independently of TripHistory.MidTrip()
func (s *thSession) midByMarkers() bool {
	e := s.th.VerifEntries()[0]
	m := e.Start == 0 || (e.Et != 2 && e.Et != 3)
	if m != s.th.MidTrip() {
		s.fail("C05", "midtrip-disagrees-with-markers", fmt.Sprintf("MidTrip() = %v but the newest flight carries marker %d", s.th.MidTrip(), e.Et))
	}
	return m
}

func (s *thSession) update(p thParams, now uint64, rng *Rng) int64 {
	before := s.th.VerifEntries()
	wasMid := s.midByMarkers()
	rp := p.real()
	dy, fy, err := s.th.Update(&rp, flap.EpochTime(now))
	code := thErrCode(err)
	s.coq = append(s.coq, fmt.Sprintf("TUpdate %s %d %d %d %d", p.coq(), now, code, fbits(float64(dy)), fy))
	s.ops = append(s.ops, thOp{"op": "update", "p": p, "now": now, "res": code, "dy": float64(dy), "fy": fy})
	s.updates++
	after := s.th.VerifEntries()
	// C07: updates change only markers, never a traveller's trip-end marker
	for i := range after {
		if !dataEq(before[i], after[i]) {
			s.fail("C07", "update-altered-flight-data", fmt.Sprintf("Update changed entry %d from %+v to %+v", i, before[i], after[i]))
			break
		}
		if before[i].Et == 3 && after[i].Et != 3 {
			s.fail("C07", "update-changed-traveller-trip-end", fmt.Sprintf("Update changed the traveller's trip-end marker at entry %d to %d", i, after[i].Et))
			break
		}
		if before[i].Et == 3 {
			s.ttePreserved++
		}
	}
	if code == 0 || code == 6 {
		// C05: nobody mid-trip beyond the limits
		if s.midByMarkers() && after[0].Start != 0 {
			st, n := openTrip(after)
			db := int64(flap.VerifDaysBetween(st, flap.EpochTime(now)))
			if db > p.TL {
				s.fail("C05", "mid-trip-beyond-trip-length", fmt.Sprintf("after Update(now=%d) still mid-trip: open trip started %d whole days ago, TripLength %d", now, db, p.TL))
			}
			if int64(n) >= p.FIT {
				s.fail("C05", "mid-trip-with-max-flights", fmt.Sprintf("after Update(now=%d) still mid-trip with %d flights in the open trip, FlightsInTrip %d", now, n, p.FIT))
			}
		}
		if wasMid && !s.midByMarkers() {
			st, n := openTrip(before)
			if int64(flap.VerifDaysBetween(st, flap.EpochTime(now))) > p.TL || int64(n) >= p.FIT {
				s.limitClosures++
			}
		}
		// C05: an ended trip stays ended until a flight is added/removed or the trip reopened
		if s.closedAfterUpdate && !s.touchedSinceUpdate {
			if s.midByMarkers() {
				s.fail("C05", "ended-trip-reopened-by-update", fmt.Sprintf("trip was ended after the previous update, nothing was added, removed or reopened, yet Update(now=%d) left the traveller mid-trip", now))
			} else {
				s.closedKept++
			}
		}
		s.closedAfterUpdate = !s.midByMarkers()
		s.touchedSinceUpdate = false
	}
	s.checkStructure("update")
	s.emitChecks(rng, false)
	return code
}

func (s *thSession) endTrip(rng *Rng) {
	code := thErrCode(s.th.EndTrip())
	s.coq = append(s.coq, fmt.Sprintf("TEnd %d", code))
	s.ops = append(s.ops, thOp{"op": "end", "res": code})
	if code == 0 {
		s.closedAfterUpdate = s.closedAfterUpdate && true
	}
	s.checkStructure("end")
	s.emitChecks(rng, false)
}
func (s *thSession) reopen(rng *Rng) {
	code := thErrCode(s.th.ReopenTrip())
	s.coq = append(s.coq, fmt.Sprintf("TReopen %d", code))
	s.ops = append(s.ops, thOp{"op": "reopen", "res": code})
	if code == 0 {
		s.touchedSinceUpdate = true
	}
	s.checkStructure("reopen")
	s.emitChecks(rng, false)
}

// addRemoveProbe: C07's "removing a flight that was just added to a history that was not full
// restores the previous list" on a copy of the real history.
func (s *thSession) addRemoveProbe(f flap.VerifFlight) {
	if s.count() >= 100 {
		return
	}
	cp := s.th
	before := cp.VerifEntries()
	rf := flap.VerifToFlight(f)
	if cp.AddFlight(&rf) != nil {
		return
	}
	rf2 := flap.VerifToFlight(f)
	func() {
		defer func() { recover() }()
		if cp.RemoveFlight(&rf2) != nil {
			s.fail("C07", "just-added-flight-not-removable", fmt.Sprintf("flight %+v was added and then not found by RemoveFlight", f))
			return
		}
		after := cp.VerifEntries()
		for i := range after {
			if after[i] != before[i] {
				s.fail("C07", "add-remove-does-not-restore", fmt.Sprintf("add+remove of %+v on a history of %d flights changed slot %d from %+v to %+v", f, s.count(), i, before[i], after[i]))
				return
			}
		}
	}()
}

func randDist(rng *Rng) float64 {
	switch rng.Intn(12) {
	case 0:
		return 0
	case 1:
		return float64(rng.Range(1, 20000))
	case 2:
		return 0.1 * float64(rng.Range(1, 9))
	default:
		return 50 + 15000*rng.F01()
	}
}

func pickTHParams(rng *Rng) thParams {
	var p thParams
	switch rng.Intn(6) {
	case 0:
		p = thParams{TL: 365, FIT: 50, FI: 2}
	default:
		p.TL = int64(rng.Range(2, 10))
		p.FIT = int64(rng.Range(1, 6))
		p.FI = int64(rng.Range(0, int(p.TL/2)))
	}
	p.Algo = []byte{0, 0, 0, 1, 2, 0x10, 0x21}[rng.Intn(7)]
	return p
}

// genTH runs one random TripHistory script.
func genTH(rng *Rng, mode string, long bool) *thSession {
	s := &thSession{mode: mode}
	p := pickTHParams(rng)
	day := uint64(rng.Range(17000, 20000))
	nAir := rng.Range(2, 6)
	ndays := rng.Range(3, 25)
	if long {
		ndays = rng.Range(60, 140)
	}
	mkFlight := func(startDay uint64) flap.VerifFlight {
		sec := uint64(rng.Intn(86400))
		switch rng.Intn(10) {
		case 0:
			sec = 0
		case 1:
			sec = 86399
		}
		st := startDay*86400 + sec
		if st == 0 {
			st = 1
		}
		dur := uint64(rng.Range(1800, 72000))
		a := rng.Intn(nAir)
		b := rng.Intn(nAir)
		return flap.VerifFlight{Start: flap.EpochTime(st), End: flap.EpochTime(st + dur), From: icaoOf(a), To: icaoOf(b), Distance: flap.Kilometres(randDist(rng))}
	}
	for d := 0; d < ndays; d++ {
		// daily update (sometimes skipped, sometimes at a wrong time)
		if rng.Chance(17, 20) {
			now := day * 86400
			if rng.Chance(1, 25) {
				now += uint64(rng.Range(1, 86399))
			}
			if rng.Chance(1, 15) {
				p = pickTHParams(rng)
			}
			s.update(p, now, rng)
			if rng.Chance(1, 12) {
				s.update(p, now, rng) // twice the same day
			}
		}
		nops := rng.Intn(4)
		if long {
			nops = rng.Range(1, 4)
		}
		for k := 0; k < nops; k++ {
			switch r := rng.Intn(20); {
			case r < 9: // today's flight, or one reported ahead of its departure (the next updates fall before it leaves)
				f := mkFlight(day)
				if rng.Chance(1, 5) {
					f = mkFlight(day + uint64(rng.Range(1, 4)))
					s.ahead++
				}
				if rng.Chance(1, 6) {
					s.addRemoveProbe(f)
				}
				s.add(f, rng)
			case r < 12: // out of order: some earlier day, sometimes far in the past
				back := uint64(rng.Range(1, 12))
				if rng.Chance(1, 5) {
					back = uint64(rng.Range(30, 4000))
				}
				fb := mkFlight(day - back)
				if rng.Chance(1, 2) {
					s.addRemoveProbe(fb) // also a late report older than everything held (lands in the last used slot)
				}
				s.add(fb, rng)
			case r < 14: // tie with a stored flight
				n := s.count()
				if n > 0 {
					es := s.th.VerifEntries()
					g := es[rng.Intn(n)]
					f := mkFlight(day)
					f.Start = g.Start
					f.End = g.Start + flap.EpochTime(rng.Range(600, 50000))
					if rng.Chance(1, 3) {
						f = g // exact duplicate
						f.Et = 0
					}
					s.add(f, rng)
				}
			case r < 16: // remove a stored flight
				n := s.count()
				if n > 0 {
					i := rng.Intn(n)
					switch rng.Intn(8) {
					case 0, 1:
						i = n - 1 // the oldest flight held (slot 99 of a full history)
					case 2:
						i = 0
					}
					s.removeAt(i, rng)
				}
			case r < 17: // remove something that is not there / differs in one field
				n := s.count()
				f := mkFlight(day - uint64(rng.Intn(5)))
				if n > 0 && rng.Bool() {
					es := s.th.VerifEntries()
					f = es[rng.Intn(n)]
					switch rng.Intn(3) {
					case 0:
						f.End++
					case 1:
						f.Distance += 1
					default:
						f.To = icaoOf(17)
					}
				}
				s.removeExact(f, rng)
			case r < 19:
				s.endTrip(rng)
			default:
				s.reopen(rng)
			}
		}
		day += 1
		if rng.Chance(1, 10) {
			day += uint64(rng.Range(1, 15))
		}
	}
	// closing updates so pending closures are exercised
	for k := 0; k < rng.Intn(4); k++ {
		s.update(p, day*86400, rng)
		day += uint64(rng.Range(1, 3))
	}
	s.emitChecks(rng, true)
	s.emitDump()
	return s
}

const thRequires = "From Coq Require Import ZArith List.\nFrom Flap Require Import Model.TripHistory Run.RunTH.\nImport ListNotations.\nOpen Scope Z_scope."

func thAdd(o *Out, s *thSession, nontrivial bool) { o.AddCase(List(s.coq), nontrivial, s.ops) }
func thFlush(o *Out, prefix string) {
	o.FlushCases(prefix, thRequires, "list (list thop)", "th_mismatches 0%nat", 16)
}
