package main

import (
	"bytes"
	"fmt"
	"math"
	"os"
	"path/filepath"
	"strings"
	"time"

	"github.com/richardmorrey/flap/pkg/db"

	"github.com/richardmorrey/flap/pkg/flap"
	"github.com/richardmorrey/flap/pkg/model"
)

func init() { runners["C13"] = runC13 }

func coqBytes(b []byte) string {
	var sb strings.Builder
	sb.WriteString("[")
	for i, x := range b {
		if i > 0 {
			sb.WriteString(";")
		}
		fmt.Fprintf(&sb, "%d", x)
	}
	sb.WriteString("]")
	return sb.String()
}

func rU64(r *Rng) uint64 {
	switch r.Intn(8) {
	case 0:
		return 0
	case 1:
		return math.MaxUint64
	case 2:
		return 1
	case 3:
		return uint64(r.Range(1, 2000000000))
	}
	return r.U64()
}

// any float64 bit pattern that is not a NaN (the property excludes NaN)
func rF64(r *Rng) float64 {
	switch r.Intn(10) {
	case 0:
		return 0
	case 1:
		return math.Copysign(0, -1)
	case 2:
		return math.MaxFloat64
	case 3:
		return math.SmallestNonzeroFloat64
	case 4:
		return math.Inf(1)
	case 5:
		return -12345.678
	}
	for {
		f := math.Float64frombits(r.U64())
		if f == f {
			return f
		}
	}
}

func rCode(r *Rng) flap.ICAOCode {
	var c flap.ICAOCode
	for i := range c {
		c[i] = byte(r.Intn(256))
	}
	return c
}

func rFlight(r *Rng, nonzeroStart bool) flap.VerifFlight {
	f := flap.VerifFlight{Et: int8(r.Range(-128, 127)), Start: flap.EpochTime(rU64(r)), End: flap.EpochTime(rU64(r)), From: rCode(r), To: rCode(r), Distance: flap.Kilometres(rF64(r))}
	if r.Chance(3, 4) {
		f.Et = int8(r.Intn(5))
	}
	if nonzeroStart && f.Start == 0 {
		f.Start = 7
	}
	return f
}
func wFlight(f flap.VerifFlight) string {
	return fmt.Sprintf("(%s, (%d, (%d, (%d, (%d, %d)))))", Z(int64(f.Et)), uint64(f.Start), uint64(f.End), icao(f.From), icao(f.To), math.Float64bits(float64(f.Distance)))
}

func rPromise(r *Rng, nonzero bool) flap.Promise {
	p := flap.Promise{TripStart: flap.EpochTime(rU64(r)), TripEnd: flap.EpochTime(rU64(r)), Distance: flap.Kilometres(rF64(r)), Travelled: flap.Kilometres(rF64(r)),
		Clearance: flap.EpochTime(rU64(r)), StackIndex: flap.StackIndex(r.Range(-128, 127)), CarriedOver: flap.Kilometres(rF64(r))}
	if nonzero && p.TripStart == 0 {
		p.TripStart = 9
	}
	return p
}
func wPromise(p flap.Promise) string {
	return fmt.Sprintf("(%d, (%d, (%d, (%d, (%d, (%s, %d))))))", uint64(p.TripStart), uint64(p.TripEnd), math.Float64bits(float64(p.Distance)),
		math.Float64bits(float64(p.Travelled)), uint64(p.Clearance), Z(int64(p.StackIndex)), math.Float64bits(float64(p.CarriedOver)))
}
func rTx(r *Rng, nonzero bool) flap.Transaction {
	t := flap.Transaction{Date: flap.EpochTime(rU64(r)), Distance: flap.Kilometres(rF64(r)), TT: flap.TransactionType(r.Intn(256))}
	if nonzero && t.Date == 0 {
		t.Date = 3
	}
	return t
}
func wTx(t flap.Transaction) string {
	return fmt.Sprintf("(%d, (%d, %d))", uint64(t.Date), math.Float64bits(float64(t.Distance)), uint8(t.TT))
}
func wFloats(xs []float64) string {
	var l []string
	for _, x := range xs {
		l = append(l, fmt.Sprint(math.Float64bits(x)))
	}
	return List(l)
}
func rFloats(r *Rng, max int) []float64 {
	n := r.Intn(max + 1)
	if r.Chance(1, 4) {
		n = 0
	}
	var xs []float64
	for i := 0; i < n; i++ {
		xs = append(xs, rF64(r))
	}
	return xs
}
func rSmooth(r *Rng) flap.VerifPredState {
	return flap.VerifPredState{WindowSize: r.Range(-3, 400), MaxYs: r.Range(-3, 400), Ys: rFloats(r, 30), Window: rFloats(r, 12)}
}
func wSmooth(s flap.VerifPredState) string {
	return fmt.Sprintf("(%s, (%s, (%s, %s)))", Z(int64(s.WindowSize)), Z(int64(s.MaxYs)), wFloats(s.Ys), wFloats(s.Window))
}
func countChoice(r *Rng, max int) int {
	switch r.Intn(5) {
	case 0:
		return 0
	case 1:
		return max
	case 2:
		return 1
	case 3:
		return max - 1
	}
	return r.Intn(max + 1)
}

func runC13(o *Out, rng *Rng, tier string, replay string) {
	n := 160
	if tier == "thorough" {
		n = 2500
	} else if tier == "search" {
		n = 600
	}
	o.sum.Rule = "case = one value of one persisted record type (flight, trip history with 0/1/99/100/random flights, promise, promises with 0/10, transaction(s) with 0/100, whole traveller, smoothed window, both predictors, correction state, grounded count, airport, journey, planner day, model state) with extreme integers, -128..127 markers, any non-NaN float64 bit pattern (negative zero, subnormals, infinities, huge), any bytes in codes and passports: the Go To() bytes must equal the model's encoding and decode back; Go monitor decodes into a fresh value and compares, encodes twice; the five gob-encoded records get the Go-side round trip and determinism only; non-trivial = a list-bearing record with at least one element; distinct by bytes"
	var coq []string
	add := func(kind string, w string, b []byte, nontrivial bool) {
		o.Count("kind_" + kind)
		item := fmt.Sprintf("%s %s %s", kind, w, coqBytes(b))
		o.AddCase(item, nontrivial, map[string]interface{}{"kind": kind, "wire": w, "bytes": len(b)})
		coq = append(coq, item)
	}
	fail := func(sig, what string) {
		o.Fail(MonitorFailure{Property: "C13", Signature: sig, What: what, Replay: what})
	}
	for c := 0; c < n; c++ {
		r := rng.Fork()
		// --- flight
		f := rFlight(r, false)
		rf := flap.VerifToFlight(f)
		var b bytes.Buffer
		rf.To(&b)
		raw := append([]byte(nil), b.Bytes()...)
		var back flap.Flight
		back.From(&b)
		if flap.VerifFromFlight(back) != f && f.Distance == f.Distance {
			fail("flight-round-trip", fmt.Sprintf("%+v decoded as %+v", f, flap.VerifFromFlight(back)))
		}
		add("CFlight", wFlight(f), raw, false)
		// --- traveller with history / promises / transactions
		var t flap.Traveller
		t.VerifSetVersion(uint8(r.Intn(256)))
		t.Created = flap.EpochTime(rU64(r))
		var pp flap.Passport
		for i := range pp.Number {
			pp.Number[i] = byte(r.Intn(256))
		}
		for i := range pp.Issuer {
			pp.Issuer[i] = byte(r.Intn(256))
		}
		t.VerifSetPassport(pp)
		nf := countChoice(r, 100)
		var fl []string
		for i := 0; i < nf; i++ {
			x := rFlight(r, true)
			t.VerifTripHistory().VerifSetEntry(i, x)
			fl = append(fl, wFlight(x))
		}
		oc := r.Range(-128, 127)
		t.VerifTripHistory().VerifSetOldestChange(oc)
		np := countChoice(r, 10)
		var pl []string
		for i := 0; i < np; i++ {
			x := rPromise(r, true)
			t.Promises.VerifSetEntry(i, x)
			pl = append(pl, wPromise(x))
		}
		nt := countChoice(r, 100)
		var tl []string
		for i := 0; i < nt; i++ {
			x := rTx(r, true)
			t.Transactions.VerifSetEntry(i, x)
			tl = append(tl, wTx(x))
		}
		t.Kept = rPromise(r, false)
		t.Balance = flap.Kilometres(rF64(r))
		whist := fmt.Sprintf("(%s, %s)", List(fl), Z(int64(int8(oc))))
		// history alone
		b.Reset()
		t.VerifTripHistory().To(&b)
		add("CHist", whist, append([]byte(nil), b.Bytes()...), nf > 0)
		b.Reset()
		t.Promises.To(&b)
		add("CPromises", List(pl), append([]byte(nil), b.Bytes()...), np > 0)
		if c%4 == 0 {
			b.Reset()
			t.Transactions.To(&b)
			add("CTxs", List(tl), append([]byte(nil), b.Bytes()...), nt > 0)
			b.Reset()
			t.To(&b)
			raw = append([]byte(nil), b.Bytes()...)
			var b2 bytes.Buffer
			t.To(&b2)
			if !bytes.Equal(raw, b2.Bytes()) {
				fail("traveller-encoding-not-deterministic", "two encodings of the same traveller differ")
			}
			var t2 flap.Traveller
			if err := t2.From(&b); err != nil || hashTrav(&t2) != hashTrav(&t) || t2.VerifPassport() != pp || t2.VerifVersion() != t.VerifVersion() {
				fail("traveller-round-trip", fmt.Sprintf("traveller with %d flights, %d promises, %d transactions does not decode to itself (err %v)", nf, np, nt, err))
			}
			var num, iss uint64
			nb := new(bigLE)
			num, iss = nb.le(pp.Number[:]), nb.le(pp.Issuer[:])
			_ = num
			wtr := fmt.Sprintf("(%d, (%d, (%s, (%d, (%s, (%s, (%s, (%s, %d))))))))", t.VerifVersion(), uint64(t.Created), leBig(pp.Number[:]), iss,
				whist, List(pl), List(tl), wPromise(t.Kept), math.Float64bits(float64(t.Balance)))
			add("CTraveller", wtr, raw, nf+np+nt > 0)
		}
		// --- single promise / transaction
		p1 := rPromise(r, false)
		b.Reset()
		p1.To(&b)
		add("CPromise", wPromise(p1), append([]byte(nil), b.Bytes()...), false)
		x1 := rTx(r, false)
		b.Reset()
		x1.To(&b)
		add("CTx", wTx(x1), append([]byte(nil), b.Bytes()...), false)
		// --- smoothed window, predictors, correction, grounded count
		sm := rSmooth(r)
		b.Reset()
		flap.VerifSmoothTo(sm, &b)
		raw = append([]byte(nil), b.Bytes()...)
		if back, err := flap.VerifSmoothFrom(&b); err != nil || fmt.Sprint(wSmooth(back)) != wSmooth(sm) {
			fail("smoothed-window-round-trip", fmt.Sprintf("%+v decoded as %+v (err %v)", sm, back, err))
		}
		add("CSmooth", wSmooth(sm), raw, len(sm.Ys)+len(sm.Window) > 0)
		// window sizes as large as the configuration allows (MaxPoints is a uint32, the smoothing windows are
		// 64-bit day counts): Go-side round trip only
		if c%8 == 0 {
			big := rSmooth(r)
			big.MaxYs = []int{1 << 31, 1<<32 - 1, 3000000000, 1<<31 - 1}[r.Intn(4)]
			big.WindowSize = []int{1 << 31, 1<<32 + 3, 1 << 40, 1<<31 - 1, 7}[r.Intn(5)]
			var bb bytes.Buffer
			flap.VerifSmoothTo(big, &bb)
			if back, err := flap.VerifSmoothFrom(&bb); err != nil || back.MaxYs != big.MaxYs || back.WindowSize != big.WindowSize {
				fail("smoothing-window-size-beyond-int32-not-preserved", fmt.Sprintf("smoothing window with maxYs %d and windowSize %d decoded as maxYs %d, windowSize %d (err %v)", big.MaxYs, big.WindowSize, back.MaxYs, back.WindowSize, err))
			}
			o.Count("smooth_window_sizes_beyond_int32")
		}
		lin := rSmooth(r)
		lin.Kind, lin.M, lin.C, lin.Pv = 1, rF64(r), rF64(r), rU64(r)
		b.Reset()
		flap.VerifPredFromState(lin).To(&b)
		raw = append([]byte(nil), b.Bytes()...)
		e1 := flap.VerifEmptyPred(1)
		if err := e1.From(&b); err != nil || hashPred(7, e1.State()) != hashPred(7, lin) {
			fail("linear-predictor-round-trip", fmt.Sprintf("%+v decoded as %+v (err %v)", lin, e1.State(), err))
		}
		add("CBestfit", fmt.Sprintf("(%s, (%d, (%d, %d)))", wSmooth(lin), math.Float64bits(lin.M), math.Float64bits(lin.C), lin.Pv), raw, len(lin.Ys) > 0)
		pol := rSmooth(r)
		pol.Kind, pol.Pv, pol.Consts, pol.Degree = 2, rU64(r), rFloats(r, 6), r.Intn(1000)
		b.Reset()
		flap.VerifPredFromState(pol).To(&b)
		raw = append([]byte(nil), b.Bytes()...)
		e2 := flap.VerifEmptyPred(2)
		if err := e2.From(&b); err != nil || hashPred(7, e2.State()) != hashPred(7, pol) {
			fail("polynomial-predictor-round-trip", fmt.Sprintf("%+v decoded as %+v (err %v)", pol, e2.State(), err))
		}
		add("CPolyfit", fmt.Sprintf("(%s, (%d, (%s, %d)))", wSmooth(pol), pol.Pv, wFloats(pol.Consts), pol.Degree), raw, len(pol.Consts) > 0)
		pc := flap.VerifPCState{BacSm: rSmooth(r), CdSm: rSmooth(r), BalanceAtClearance: flap.Kilometres(rF64(r)), ClearedDistance: flap.Kilometres(rF64(r)), BacPerKm: flap.Kilometres(rF64(r))}
		b.Reset()
		flap.VerifPCTo(pc, &b)
		raw = append([]byte(nil), b.Bytes()...)
		if back, err := flap.VerifPCFrom(&b); err != nil || wSmooth(back.BacSm) != wSmooth(pc.BacSm) || wSmooth(back.CdSm) != wSmooth(pc.CdSm) ||
			fbits(float64(back.BacPerKm)) != fbits(float64(pc.BacPerKm)) || fbits(float64(back.ClearedDistance)) != fbits(float64(pc.ClearedDistance)) || fbits(float64(back.BalanceAtClearance)) != fbits(float64(pc.BalanceAtClearance)) {
			fail("correction-state-round-trip", fmt.Sprintf("%+v decoded as %+v (err %v)", pc, back, err))
		}
		add("CCorrection", fmt.Sprintf("(%s, (%d, (%s, (%d, %d))))", wSmooth(pc.BacSm), math.Float64bits(float64(pc.BalanceAtClearance)), wSmooth(pc.CdSm),
			math.Float64bits(float64(pc.ClearedDistance)), math.Float64bits(float64(pc.BacPerKm))), raw, true)
		g := rU64(r)
		b.Reset()
		flap.VerifBackfillTo(g, &b)
		raw = append([]byte(nil), b.Bytes()...)
		if back, err := flap.VerifBackfillFrom(&b); err != nil || back != g {
			fail("grounded-count-round-trip", fmt.Sprintf("%d decoded as %d", g, back))
		}
		add("CBackfill", fmt.Sprint(g), raw, false)
		// --- airport
		ap := flap.Airport{Code: rCode(r), Loc: flap.LatLon{Lat: rF64(r), Lon: rF64(r)}}
		b.Reset()
		ap.To(&b)
		raw = append([]byte(nil), b.Bytes()...)
		var ap2 flap.Airport
		ap2.From(&b)
		if fbits(ap2.Loc.Lat) != fbits(ap.Loc.Lat) || fbits(ap2.Loc.Lon) != fbits(ap.Loc.Lon) {
			fail("airport-round-trip", fmt.Sprintf("%+v decoded as %+v", ap, ap2))
		}
		add("CAirport", fmt.Sprintf("(%d, %d)", math.Float64bits(ap.Loc.Lat), math.Float64bits(ap.Loc.Lon)), raw, false)
		// --- model records
		nj := countChoice(r, 6)
		var js []model.VerifJourney
		var jw []string
		for i := 0; i < nj; i++ {
			jf := rFlight(r, false)
			j := model.VerifJourney{Jt: uint8(r.Intn(256)), Flight: flap.VerifToFlight(jf), Length: flap.Days(int64(rU64(r)))}
			js = append(js, j)
			jw = append(jw, fmt.Sprintf("(%s, (%d, %s))", wFlight(jf), j.Jt, Z(int64(j.Length))))
		}
		if nj > 0 {
			b.Reset()
			model.VerifJourneyTo(js[0], &b)
			raw = append([]byte(nil), b.Bytes()...)
			if back, err := model.VerifJourneyFrom(&b); err != nil || back.Jt != js[0].Jt || back.Length != js[0].Length || flap.VerifFromFlight(back.Flight) != flap.VerifFromFlight(js[0].Flight) && js[0].Flight.Distance == js[0].Flight.Distance {
				fail("journey-round-trip", fmt.Sprintf("%+v decoded as %+v (err %v)", js[0], back, err))
			}
			add("CJourney", jw[0], raw, true)
		}
		b.Reset()
		model.VerifPlannerDayTo(js, &b)
		raw = append([]byte(nil), b.Bytes()...)
		if back, err := model.VerifPlannerDayFrom(&b); err != nil || len(back) != len(js) {
			fail("planner-day-round-trip", fmt.Sprintf("%d journeys decoded as %d (err %v)", len(js), len(back), err))
		}
		add("CPlannerDay", List(jw), raw, nj > 0)
		ms := model.VerifModelState{TotalDayOne: rF64(r), TravellersForMinGrounded: rF64(r), TotalTravellersCurrent: rU64(r), StartDate: flap.EpochTime(rU64(r))}
		b.Reset()
		model.VerifModelStateTo(ms, &b)
		raw = append([]byte(nil), b.Bytes()...)
		if back, err := model.VerifModelStateFrom(&b); err != nil || back.TotalTravellersCurrent != ms.TotalTravellersCurrent || back.StartDate != ms.StartDate ||
			fbits(back.TotalDayOne) != fbits(ms.TotalDayOne) || fbits(back.TravellersForMinGrounded) != fbits(ms.TravellersForMinGrounded) {
			fail("model-state-round-trip", fmt.Sprintf("%+v decoded as %+v (err %v)", ms, back, err))
		}
		add("CModelState", fmt.Sprintf("(%d, (%d, (%d, %d)))", math.Float64bits(ms.TotalDayOne), uint64(ms.StartDate), math.Float64bits(ms.TravellersForMinGrounded), ms.TotalTravellersCurrent), raw, false)
		// --- gob records: Go-side only
		for _, kind := range []string{"summaryStats", "botStats", "countryWeights", "Country"} {
			gseed := r.U64()
			det, rtok, size, err := model.VerifGobRoundTrip(kind, gseed)
			o.Count("gob_" + kind)
			if err != nil || !det || !rtok {
				fail("gob-record-round-trip", fmt.Sprintf("%s: deterministic=%v roundtrip=%v size=%d err=%v", kind, det, rtok, size, err))
			}
			// the decoded VALUE equals the encoded one in every field, exported or not
			if _, _, eq, diff, err := model.VerifGobValueRoundTrip(kind, gseed); err == nil && !eq {
				fail("gob-record-decodes-to-different-value", fmt.Sprintf("%s (seed %d): %s", kind, gseed, diff))
			}
		}
		// FlapParams (gob)
		fp := pickEngParams(r, engCfg{promises: -1})
		var g1, g2, g3 bytes.Buffer
		fp.To(&g1)
		fp.To(&g2)
		var fp2 flap.FlapParams
		rawp := append([]byte(nil), g1.Bytes()...)
		if err := fp2.From(&g1); err != nil || fp2 != fp || !bytes.Equal(rawp, g2.Bytes()) {
			fail("gob-record-round-trip", fmt.Sprintf("FlapParams %+v decoded as %+v (err %v)", fp, fp2, err))
		}
		_ = g3
		o.Count("gob_FlapParams")
	}
	_ = coq
	// records stored through the database wrapper while another record of the same table is being encoded:
	// each must read back as the value that was handed in (the encoder of the first Put is held half-way
	// while a second Put of the same table completes)
	c13InterleavedPuts(o, rng.Fork(), filepath.Join(o.dir, "ilv"), fail)
	o.FlushCases("C13", "From Coq Require Import ZArith List.\nFrom Flap Require Import Model.Codec Run.RunCodec.\nImport ListNotations.\nOpen Scope Z_scope.",
		"list ccase", "c_mismatches 0%nat", 16)
}

// little-endian number of a byte array (up to 8 bytes) / big arrays as decimal strings
type bigLE struct{}

func (bigLE) le(b []byte) uint64 {
	var v uint64
	for i := len(b) - 1; i >= 0; i-- {
		v = v<<8 | uint64(b[i])
	}
	return v
}
func leBig(b []byte) string {
	// up to 9 bytes: use math/big-free two-part arithmetic
	hi := uint64(0)
	if len(b) > 8 {
		hi = uint64(b[8])
	}
	lo := bigLE{}.le(b[:8])
	if hi == 0 {
		return fmt.Sprint(lo)
	}
	return fmt.Sprintf("(%d * 18446744073709551616 + %d)", hi, lo)
}


// gatedRecord is a db.Serialize whose encoder can be held at its start and half-way
type gatedRecord struct {
	data    []byte
	entered chan struct{} // closed when To has been entered
	gate    chan struct{} // To proceeds when this is closed
	half    bool          // hold after the first half has been written instead of at the start
}

func (g *gatedRecord) To(b *bytes.Buffer) error {
	n := 0
	if g.half {
		n = len(g.data) / 2
		b.Write(g.data[:n])
	}
	if g.entered != nil {
		close(g.entered)
		select {
		case <-g.gate:
		case <-time.After(3 * time.Second):
		}
	}
	b.Write(g.data[n:])
	return nil
}
func (g *gatedRecord) From(b *bytes.Buffer) error {
	g.data = append([]byte(nil), b.Bytes()...)
	return nil
}

func c13InterleavedPuts(o *Out, r *Rng, dir string, fail func(sig, what string)) {
	os.RemoveAll(dir)
	os.MkdirAll(dir, 0o755)
	defer os.RemoveAll(dir)
	ldb := db.NewLevelDB(dir)
	defer ldb.Release()
	t, err := ldb.CreateTable("records")
	if err != nil {
		return
	}
	for k := 0; k < 12; k++ {
		mk := func() []byte {
			b := make([]byte, r.Range(1, 300))
			for i := range b {
				b[i] = byte(r.Intn(256))
			}
			return b
		}
		a, b2 := mk(), mk()
		first := &gatedRecord{data: a, entered: make(chan struct{}), gate: make(chan struct{}), half: k%2 == 1}
		done := make(chan error, 1)
		k1, k2 := fmt.Sprintf("a%03d", k), fmt.Sprintf("b%03d", k)
		go func() { done <- t.Put(k1, first) }()
		select {
		case <-first.entered:
		case <-time.After(3 * time.Second):
		}
		second := make(chan error, 1)
		go func() { second <- t.Put(k2, &gatedRecord{data: b2}) }()
		select { // a wrapper that serialises its writers keeps the second Put waiting: that is fine
		case <-second:
		case <-time.After(200 * time.Millisecond):
		}
		close(first.gate)
		<-done
		select {
		case <-second:
		case <-time.After(3 * time.Second):
		}
		var ra, rb gatedRecord
		ea, eb := t.Get(k1, &ra), t.Get(k2, &rb)
		o.Count("records_stored_while_another_is_being_encoded")
		if ea != nil || eb != nil || !bytes.Equal(ra.data, a) || !bytes.Equal(rb.data, b2) {
			fail("record-stored-during-another-put-reads-back-different", fmt.Sprintf("two records of %d and %d bytes written to one table with overlapping Put calls (first held %v): read back %d bytes (err %v) and %d bytes (err %v)", len(a), len(b2), map[bool]string{false: "at the start of its encoder", true: "half-way through its encoder"}[first.half], len(ra.data), ea, len(rb.data), eb))
		}
	}
}
