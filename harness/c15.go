package main

import (
	"fmt"
	"path/filepath"
	"time"

	"github.com/richardmorrey/flap/pkg/flap"
)

func init() { runners["C15"] = runC15 }

func c15Base() flap.FlapParams {
	var p flap.FlapParams
	p.TripLength, p.FlightsInTrip, p.FlightInterval = 6, 4, 2
	p.DailyTotal, p.MinGrounded = 1234.5, 1
	p.Promises = flap.PromisesConfig{Algo: 1, MaxPoints: 5, MaxDays: 20, MaxStackSize: 2, SmoothWindow: 2, CorrectionSmoothWindow: 1, Degree: 1}
	p.Threads = 1
	return p
}

// miniDay runs a short scripted life with the accepted parameters; every call is recorded for the model
func miniDay(s *engSession, rng *Rng) {
	day := uint64(18000 + rng.Intn(500))
	mk := func(d uint64, sec uint64, a, b int, dist float64) flap.VerifFlight {
		st := d*86400 + sec
		return flap.VerifFlight{Start: flap.EpochTime(st), End: flap.EpochTime(st + 5000), From: icaoOf(a), To: icaoOf(b), Distance: flap.Kilometres(dist)}
	}
	for d := 0; d < 5; d++ {
		s.update(day * 86400)
		for i := range s.trav {
			s.submit(i, []flap.VerifFlight{mk(day, uint64(1000+7000*i+rng.Intn(500)), i, i+1, 300.5+float64(100*d))}, day*86400+10, true)
		}
		f := mk(day+uint64(2+d), 3000, 1, 2, 450.25)
		if code, slot := s.propose(0, []flap.VerifFlight{f}, 0, day*86400+20); code == 0 {
			s.make(0, slot, day*86400+30, s.props[slot].VerifVersion())
		}
		day++
	}
	s.update(day * 86400)
}

func runC15(o *Out, rng *Rng, tier string, replay string) {
	o.sum.Rule = "case = (a) a sequence of SetParams calls on one engine sweeping each documented limit at and around its boundary - flights per trip 0,1,49,50,51,huge; flight interval against trip length incl. zero and negative; all 256 thread bytes; algorithms 0..3 with every option bit; predictor windows 0,1,2,3; degrees 0..6; zero/negative/huge Daily Total - where every rejection must leave parameters and predictor unchanged (administrator hash) and every result code must equal the model's validity test; (b) for accepted sets - always including zero, negative, huge and tiny Daily Totals under the linear predictor and the polynomial predictor of every degree - a scripted five-day life (check-ins, proposals, promise-making, updates) under a wall-clock timeout and panic recovery, compared step by step with the model; predictor windows up to 2^32-1 points and smoothing windows up to 2^62 days among the accepted sets; (c) whole traveller-bot histories under every combination of the correction option bits, under a time-out; non-trivial = a rejected and an accepted set / a mini-life that made a promise; distinct by script hash"
	wd := filepath.Join(o.dir, "dbs")
	nSweeps, nLives := 4, 40
	if tier == "thorough" {
		nSweeps, nLives = 30, 600
	} else if tier == "search" {
		nSweeps, nLives = 10, 150
	}
	var candidates []flap.FlapParams
	base := c15Base()
	for _, v := range []uint64{0, 1, 49, 50, 51, 100, 1 << 62} {
		p := base
		p.FlightsInTrip = v
		candidates = append(candidates, p)
	}
	for _, pr := range [][2]int64{{0, 0}, {1, 1}, {1, 2}, {2, 3}, {2, 4}, {3, 5}, {-1, -3}, {-2, -3}, {0, -1}, {5, 10}, {5, 9}, {1 << 61, 1 << 62}} {
		p := base
		p.FlightInterval, p.TripLength = flap.Days(pr[0]), flap.Days(pr[1])
		candidates = append(candidates, p)
	}
	for th := 0; th < 256; th++ {
		p := base
		p.Threads = byte(th)
		candidates = append(candidates, p)
	}
	for _, a := range []byte{0, 1, 2, 3, 0x10, 0x11, 0x12, 0x21, 0x22, 0x41, 0x42, 0x71, 0x72, 0x7f, 0xff, 0x0f} {
		for _, mp := range []uint32{0, 1, 2, 3} {
			p := base
			p.Promises.Algo = flap.PromisesAlgo(a)
			p.Promises.MaxPoints = mp
			p.Promises.Degree = uint32(rng.Intn(7))
			candidates = append(candidates, p)
		}
	}
	for _, dt := range []float64{0, -5, 1e300, 0.001} {
		p := base
		p.DailyTotal = flap.Kilometres(dt)
		p.Promises.Algo = flap.PromisesAlgo(1 + rng.Intn(2))
		candidates = append(candidates, p)
	}
	// predictor and smoothing windows as large as their types allow
	var hugeWindows []flap.FlapParams
	for _, a := range []byte{1, 2} {
		for _, mp := range []uint32{1<<31 - 1, 1 << 31, 1<<32 - 1} {
			p := base
			p.Promises.Algo = flap.PromisesAlgo(a)
			p.Promises.MaxPoints = mp
			p.Promises.SmoothWindow = flap.Days([]int64{0, 1 << 31, 1<<62 + 5}[rng.Intn(3)])
			p.Promises.CorrectionSmoothWindow = flap.Days([]int64{1, 1<<32 + 3}[rng.Intn(2)])
			candidates = append(candidates, p)
			hugeWindows = append(hugeWindows, p)
		}
	}
	// (a) sweeps on one engine
	for k := 0; k < nSweeps; k++ {
		r := rng.Fork()
		s := newEngSession(wd, "all")
		s.setParams(base)
		s.checkAdmin()
		rejected, accepted := 0, 0
		order := r.Intn(len(candidates))
		for j := 0; j < len(candidates); j++ {
			p := candidates[(order+j*7)%len(candidates)]
			before := hashAdmin(s.eng.Administrator)
			code := s.setParams(p)
			s.checkAdmin()
			// the documented limits, stated independently of the code and of the model
			pop := 0
			for b := 0; b < 8; b++ {
				if p.Threads&(1<<uint(b)) != 0 {
					pop++
				}
			}
			valid := p.FlightsInTrip <= 50 && p.FlightInterval*2 <= p.TripLength && !(p.Promises.Algo != 0 && p.Promises.MaxPoints < 2) && pop <= 1 && p.Threads <= 16
			if valid != (code == 0) {
				sig := "invalid-parameters-accepted"
				if valid {
					sig = "valid-parameters-rejected"
				}
				s.fail("C15", sig, fmt.Sprintf("SetParams(%+v) returned code %d; documented limits (flights per trip <= 50, 2*interval <= trip length, predictor window >= 2 with promises on, threads a power of two <= 16) say valid=%v", p, code, valid))
			}
			if code != 0 {
				rejected++
				if hashAdmin(s.eng.Administrator) != before {
					s.fail("C15", "rejected-parameters-changed-state", fmt.Sprintf("SetParams rejected %+v yet parameters or predictor changed", p))
				}
			} else {
				accepted++
			}
			o.Count(fmt.Sprintf("setparams_res_%d", code))
		}
		keepFails(o, s, "C15")
		o.AddCase(List(s.coq), rejected > 0 && accepted > 0, s.ops)
		s.close()
	}
	// (b) lives under accepted parameter sets
	var okSets []flap.FlapParams
	{
		s := newEngSession(wd, "none")
		for _, p := range candidates {
			if s.eng.Administrator.SetParams(p) == nil {
				okSets = append(okSets, p)
			}
		}
		s.close()
	}
	// always covered first: extreme Daily Totals (zero, negative, huge, tiny) under both predictors
	// and every polynomial degree (zero shares make the fitted curve the zero polynomial)
	var special []flap.FlapParams
	for _, dt := range []float64{0, -5, 1e300, 0.001} {
		for _, ad := range [][2]uint32{{1, 1}, {2, 1}, {2, 2}, {2, 3}} {
			p := base
			p.DailyTotal = flap.Kilometres(dt)
			p.Promises.Algo = flap.PromisesAlgo(ad[0])
			p.Promises.Degree = ad[1]
			special = append(special, p)
		}
	}
	special = append(special, hugeWindows...)
	// every permitted thread setting lives a few days in which the daily update rewrites traveller records
	for _, th := range []byte{0, 1, 2, 4, 8, 16} {
		for _, a := range []byte{1, 2} {
			p := base
			p.Threads = th
			p.Promises.Algo = flap.PromisesAlgo(a)
			special = append(special, p)
		}
	}
	for k := 0; k < nLives+len(special); k++ {
		r := rng.Fork()
		p := okSets[r.Intn(len(okSets))]
		if k < len(special) {
			p = special[k]
		} else if r.Chance(1, 2) { // combine two accepted sets
			q := okSets[r.Intn(len(okSets))]
			p.Threads = q.Threads
			p.Promises = q.Promises
		}
		s := newEngSession(wd, "all")
		if s.setParams(p) != 0 {
			s.close()
			continue
		}
		used := map[string]bool{}
		for i := 0; i < 2; i++ {
			s.addTraveller(passportWithPrefix(r, -1, used))
		}
		done := make(chan string, 1)
		go func() {
			defer func() {
				if x := recover(); x != nil {
					done <- fmt.Sprintf("panic: %v", x)
				}
			}()
			miniDay(s, r)
			done <- ""
		}()
		select {
		case msg := <-done:
			if msg != "" {
				o.Fail(MonitorFailure{Property: "C15", Signature: "accepted-parameters-crash", What: fmt.Sprintf("with accepted parameters %+v: %s", p, msg), Replay: s.ops})
			}
		case <-time.After(20 * time.Second):
			o.Fail(MonitorFailure{Property: "C15", Signature: "accepted-parameters-hang", What: fmt.Sprintf("with accepted parameters %+v the scripted days did not finish within 20 s", p), Replay: s.ops})
			continue // the goroutine may still hold the session
		}
		for _, f := range s.fails {
			if f.Property == "C15" {
				o.Fail(f)
			}
		}
		o.Count(fmt.Sprintf("life_threads_%d", p.Threads))
		o.Count(fmt.Sprintf("life_algo_%d", p.Promises.Algo&0x0f))
		o.AddCase(List(s.coq), s.stat["makes_ok"] > 0, s.ops)
		s.close()
	}
	// (c) whole traveller-bot histories (kept promises used while in debt, so that the promise correction
	// runs on non-zero accumulators) under every combination of the correction option bits, under a time-out
	nProto := 6
	if tier == "thorough" {
		nProto = 48
	} else if tier == "search" {
		nProto = 16
	}
	for k := 0; k < nProto; k++ {
		r := rng.Fork()
		bits := []int{0x20, 0x60, 0x30, 0x70, 0x10, 0x40, 0x50, 0x00}[k%8]
		type outc struct {
			s   *engSession
			msg string
		}
		done := make(chan outc, 1)
		go func() {
			defer func() {
				if x := recover(); x != nil {
					done <- outc{nil, fmt.Sprintf("panic: %v", x)}
				}
			}()
			done <- outc{genProtocol(r, wd, false, "all", bits), ""}
		}()
		select {
		case oc := <-done:
			if oc.msg != "" {
				o.Fail(MonitorFailure{Property: "C15", Signature: "accepted-parameters-crash", What: fmt.Sprintf("traveller-bot history with promises option bits %#x: %s", bits, oc.msg), Replay: map[string]interface{}{"stream": "protocol", "index": k, "option_bits": bits}})
				continue
			}
			keepFails(o, oc.s, "C15")
			o.Count(fmt.Sprintf("protocol_life_option_bits_%#x", bits))
			o.AddCase(List(oc.s.coq), oc.s.stat["c20_checkins_accepted"] > 3, oc.s.ops)
			oc.s.close()
		case <-time.After(90 * time.Second):
			o.Fail(MonitorFailure{Property: "C15", Signature: "accepted-parameters-hang", What: fmt.Sprintf("a traveller-bot history (daily updates, proposals, check-ins on kept promises) with promises option bits %#x did not finish within 90 s", bits), Replay: map[string]interface{}{"stream": "protocol", "index": k, "option_bits": bits}})
		}
	}
	engFlush(o, "C15")
}
