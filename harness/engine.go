package main

import (
	"errors"
	"fmt"
	"math"
	"math/big"
	"os"
	"path/filepath"
	"sort"
	"time"

	"github.com/richardmorrey/flap/pkg/db"
	"github.com/richardmorrey/flap/pkg/flap"
)

// Engine-level scripts: the real flap.Engine on a real LevelDB, driven through its API.  Every step is
// recorded for the Coq model (Run/RunEngine.v) and judged by Go-side monitors stating the
// properties on the real code.

// ---------- hashes mirrored from Run/RunEngine.v ----------

func hashFloats(h uint64, l []float64) uint64 {
	h = imix(h, uint64(len(l)))
	for _, x := range l {
		h = hashFloat(h, x)
	}
	return h
}

func hashTx(h uint64, t flap.Transaction) uint64 {
	if t.Date == 0 && t.TT == 0 && t.Distance == 0 && !math.Signbit(float64(t.Distance)) {
		return imix(h, 13)
	}
	return imix(hashFloat(imix(h, uint64(t.Date)&mask63), float64(t.Distance)), uint64(t.TT))
}

func pzero(x flap.Kilometres) bool { return x == 0 && !math.Signbit(float64(x)) }

func hashPromise(h uint64, p flap.Promise) uint64 {
	if p.TripStart == 0 && p.TripEnd == 0 && p.Clearance == 0 && p.StackIndex == 0 && pzero(p.Distance) && pzero(p.Travelled) && pzero(p.CarriedOver) {
		return imix(h, 17)
	}
	h = imix(h, uint64(p.TripStart)&mask63)
	h = imix(h, uint64(p.TripEnd)&mask63)
	h = hashFloat(h, float64(p.Distance))
	h = hashFloat(h, float64(p.Travelled))
	h = imix(h, uint64(p.Clearance)&mask63)
	h = imix(h, uint64(uint8(p.StackIndex)))
	return hashFloat(h, float64(p.CarriedOver))
}

func hashBook(h uint64, ps []flap.Promise) uint64 {
	for _, p := range ps {
		h = hashPromise(h, p)
	}
	return h
}

func hashTrav(t *flap.Traveller) uint64 {
	h := imix(7, uint64(t.Created)&mask63)
	th := t.VerifTripHistory()
	for _, f := range th.VerifEntries() {
		h = hashFlight(h, f, true)
	}
	h = imix(h, uint64(th.VerifOldestChange()))
	for _, x := range t.Transactions.VerifEntries() {
		h = hashTx(h, x)
	}
	h = hashBook(h, t.Promises.VerifEntries())
	h = hashPromise(h, t.Kept)
	return hashFloat(h, float64(t.Balance))
}

func hashLedger(t *flap.Traveller) uint64 {
	h := uint64(7)
	for _, x := range t.Transactions.VerifEntries() {
		h = hashTx(h, x)
	}
	return hashFloat(h, float64(t.Balance))
}

func hashSmooth(h uint64, s flap.VerifPredState) uint64 {
	h = imix(imix(h, uint64(s.WindowSize)), uint64(s.MaxYs))
	return hashFloats(hashFloats(h, s.Ys), s.Window)
}

func hashPred(h uint64, s flap.VerifPredState) uint64 {
	switch s.Kind {
	case 1:
		return imix(hashFloat(hashFloat(hashSmooth(imix(h, 23), s), s.M), s.C), s.Pv&mask63)
	case 2:
		return imix(hashFloats(imix(hashSmooth(imix(h, 29), s), s.Pv&mask63), s.Consts), uint64(s.Degree))
	}
	return imix(h, 19)
}

func hashParams(h uint64, p flap.FlapParams) uint64 {
	h = imix(imix(imix(h, uint64(p.TripLength)&mask63), p.FlightsInTrip&mask63), uint64(p.FlightInterval)&mask63)
	h = imix(hashFloat(h, float64(p.DailyTotal)), p.MinGrounded&mask63)
	h = imix(imix(imix(imix(h, uint64(p.Promises.Algo)), uint64(p.Promises.MaxPoints)), uint64(p.Promises.MaxDays)&mask63), uint64(uint8(p.Promises.MaxStackSize)))
	h = imix(imix(imix(h, uint64(p.Promises.SmoothWindow)&mask63), uint64(p.Promises.CorrectionSmoothWindow)&mask63), uint64(p.Promises.Degree))
	return imix(hashFloat(h, float64(p.TaxiOverhead)), uint64(p.Threads))
}

func hashAdmin(a *flap.Administrator) uint64 {
	h := hashParams(7, a.GetParams())
	h = hashPred(h, a.VerifPredictor())
	pc := a.VerifPC()
	h = hashFloat(hashSmooth(hashFloat(hashSmooth(h, pc.BacSm), float64(pc.BalanceAtClearance)), pc.CdSm), float64(pc.ClearedDistance))
	h = hashFloat(h, float64(pc.BacPerKm))
	return imix(h, a.VerifTotalGrounded()&mask63)
}

func hashProposal(pp *flap.Proposal) uint64 {
	return imix(hashBook(7, pp.VerifEntries()), pp.VerifVersion()&mask63)
}

// ---------- parameters ----------

func coqParams(p flap.FlapParams) string {
	return fmt.Sprintf("(mkP %s %d %s %d %d %d %d %s %s %s %s %d %d %d)",
		Z(int64(p.TripLength)), p.FlightsInTrip, Z(int64(p.FlightInterval)), fbits(float64(p.DailyTotal)), p.MinGrounded,
		p.Promises.Algo, p.Promises.MaxPoints, Z(int64(p.Promises.MaxDays)), Z(int64(p.Promises.MaxStackSize)),
		Z(int64(p.Promises.SmoothWindow)), Z(int64(p.Promises.CorrectionSmoothWindow)), p.Promises.Degree,
		fbits(float64(p.TaxiOverhead)), p.Threads)
}

func engErrCode(err error) int64 {
	switch err {
	case nil:
		return 0
	case flap.EGROUNDED:
		return 1
	case flap.EINVALIDARGUMENT:
		return 2
	case flap.EFLIGHTTOOOLD:
		return 3
	case flap.EPROMISESNOTENABLED:
		return 4
	case flap.ETRIPTOOFARAHEAD:
		return 5
	case flap.EINVALIDFLAPPARAMS:
		return 6
	case flap.ENOROOMFORMOREPROMISES:
		return 11
	case flap.EINTERNAL:
		return 12
	case flap.EOVERLAPSWITHPREVPROMISE:
		return 13
	case flap.EOVERLAPSWITHNEXTPROMISE:
		return 14
	case flap.EEXCEEDEDMAXSTACKSIZE:
		return 15
	case flap.EPROPOSALEXPIRED:
		return 16
	}
	return 99
}

// ---------- session ----------

type eOp map[string]interface{}

type engTrav struct {
	pp     flap.Passport
	key    string // decimal of the 160-bit key
	keyHex string
	ledger []float64 // harness-side unbounded ledger (C01 monitor)
	// C17 tally
	accepted []flap.VerifFlight
}

type engSession struct {
	dir   string
	ldb   *db.LevelDB
	eng   *flap.Engine
	coq   []string
	ops   []eOp
	trav  []*engTrav
	props []*flap.Proposal
	fails []MonitorFailure
	proj  string // which projection of the state is compared: "all", "C01", "C02", "C03", "C08", "C10", "C17"
	stat  map[string]int
	seq   int
	maskOverride int // >0: statistics mask for EUpdate
	flaky        *flakyCtl
	frng         *Rng // non-nil: storage faults are injected into some check-ins and proposals
	strictDaily  bool // the C17 discipline holds in this session: one update per day, same-day check-ins
	c17total     [3]float64 // reported flights, travellers(not summed), distance over the run
}

var sessionCounter int

// ---------- storage faults inside ordinary histories ----------
// flakyDB fails the next armed reads / writes of its tables.  A check-in or a proposal whose store call
// failed must report an error and leave everything as it was, so such an operation is simply left
// out of the script the model replays.
type flakyCtl struct {
	failGets, failPuts int // how many of the next Get / Put calls fail
	hits               int // how many armed calls have failed since arming
}
type flakyDB struct {
	inner db.Database
	ctl   *flakyCtl
}
type flakyTable struct {
	inner db.Table
	ctl   *flakyCtl
}

var errFlaky = errors.New("verif: injected storage failure")

func (d *flakyDB) OpenTable(n string) (db.Table, error) {
	t, err := d.inner.OpenTable(n)
	if err != nil {
		return nil, err
	}
	return &flakyTable{t, d.ctl}, nil
}
func (d *flakyDB) CreateTable(n string) (db.Table, error) {
	t, err := d.inner.CreateTable(n)
	if err != nil {
		return nil, err
	}
	return &flakyTable{t, d.ctl}, nil
}
func (d *flakyDB) CloseTable(n string) error { return d.inner.CloseTable(n) }
func (d *flakyDB) DropTable(n string) error  { return d.inner.DropTable(n) }
func (d *flakyDB) Release() error            { return d.inner.Release() }
func (t *flakyTable) Get(k string, x db.Serialize) error {
	if t.ctl.failGets > 0 {
		t.ctl.failGets--
		t.ctl.hits++
		return errFlaky
	}
	return t.inner.Get(k, x)
}
func (t *flakyTable) Put(k string, x db.Serialize) error {
	if t.ctl.failPuts > 0 {
		t.ctl.failPuts--
		t.ctl.hits++
		return errFlaky
	}
	return t.inner.Put(k, x)
}
func (t *flakyTable) Delete(k string) error                      { return t.inner.Delete(k) }
func (t *flakyTable) NewIterator(p string) (db.Iterator, error)  { return t.inner.NewIterator(p) }
func (t *flakyTable) TakeSnapshot() (db.Snapshot, error)         { return t.inner.TakeSnapshot() }
func (t *flakyTable) MakeBatch(n int) (db.BatchWrite, error)     { return t.inner.MakeBatch(n) }

// arm decides (from the session's own fault stream) whether the next operation meets a storage fault
func (s *engSession) arm(likely bool, allowPut bool) string {
	if s.frng == nil {
		return ""
	}
	den := 14
	if likely {
		den = 3
	}
	if !s.frng.Chance(1, den) {
		return ""
	}
	s.flaky.hits = 0
	if allowPut && s.frng.Chance(1, 3) {
		s.flaky.failPuts = 1
		return "put"
	}
	k := []int{1, 1, 2, 3, 3, 4}[s.frng.Intn(6)]
	s.flaky.failGets = k
	return fmt.Sprintf("get x%d", k)
}
func (s *engSession) disarm() bool {
	h := s.flaky.hits
	s.flaky.failGets, s.flaky.failPuts, s.flaky.hits = 0, 0, 0
	return h > 0
}

func newEngSession(workdir string, proj string) *engSession {
	sessionCounter++
	d := filepath.Join(workdir, fmt.Sprintf("db%05d", sessionCounter))
	os.RemoveAll(d)
	os.MkdirAll(d, 0o755)
	s := &engSession{dir: d, proj: proj, stat: map[string]int{}, flaky: &flakyCtl{}}
	s.ldb = db.NewLevelDB(d)
	s.eng = flap.NewEngine(&flakyDB{s.ldb, s.flaky}, 0, d)
	return s
}

func (s *engSession) close() {
	if s.ldb != nil {
		s.ldb.Release()
	}
	os.RemoveAll(s.dir)
}

func (s *engSession) restart() {
	s.eng.Release()
	s.ldb.Release()
	s.ldb = db.NewLevelDB(s.dir)
	s.eng = flap.NewEngine(&flakyDB{s.ldb, s.flaky}, 0, s.dir)
	s.coq = append(s.coq, "ERestart")
	s.ops = append(s.ops, eOp{"op": "restart"})
	s.stat["restarts"]++
}

// kill: the process dies - the database files are closed but Engine.Release (which saves the administrator
// state) never runs; the next session loads what the last clean shutdown saved.  Not modelled: histories
// with kills are judged by the Go-side monitors only.
func (s *engSession) kill() {
	s.ldb.Release()
	s.ldb = db.NewLevelDB(s.dir)
	s.eng = flap.NewEngine(&flakyDB{s.ldb, s.flaky}, 0, s.dir)
	s.coq = append(s.coq, "ERestart")
	s.ops = append(s.ops, eOp{"op": "kill"})
	s.stat["kills"]++
}

func (s *engSession) fail(prop, sig, what string) {
	// at most six per property (monitors of other properties also run in every session and must not
	// use up the room of the property under check)
	n := 0
	for _, f := range s.fails {
		if f.Property == prop {
			n++
		}
	}
	if n < 6 {
		cp := make([]eOp, len(s.ops))
		copy(cp, s.ops)
		s.fails = append(s.fails, MonitorFailure{Property: prop, Signature: sig, What: what, Replay: cp})
	}
}

func (s *engSession) addTraveller(number string) int {
	pp := flap.NewPassport(number, "GBR")
	hexk := pp.VerifKey()
	n := new(big.Int)
	n.SetString(hexk, 16)
	s.trav = append(s.trav, &engTrav{pp: pp, key: n.String(), keyHex: hexk})
	return len(s.trav) - 1
}

// passportWithPrefix searches passport numbers until the SHA1 key starts with the wanted hex digit.
func passportWithPrefix(rng *Rng, nibble int, used map[string]bool) string {
	for {
		num := fmt.Sprintf("%09d", rng.Intn(1000000000))
		if used[num] {
			continue
		}
		pp := flap.NewPassport(num, "GBR")
		k := pp.VerifKey()
		if nibble < 0 || int(hexVal(k[0])) == nibble {
			used[num] = true
			return num
		}
	}
}
// midTripOf decides "mid-trip" from the stored markers, independently of TripHistory.MidTrip():
// no flights yet, or the newest flight is neither a trip end nor a traveller's trip end
func midTripOf(t *flap.Traveller) bool {
	e := t.VerifTripHistory().VerifEntries()[0]
	return e.Start == 0 || (e.Et != 2 && e.Et != 3)
}

func hexVal(c byte) byte {
	if c >= 'a' {
		return c - 'a' + 10
	}
	return c - '0'
}

func (s *engSession) get(i int) (flap.Traveller, bool) {
	t, err := s.eng.Travellers.GetTraveller(s.trav[i].pp)
	return t, err == nil
}

func (s *engSession) setParams(p flap.FlapParams) int64 {
	code := engErrCode(s.eng.Administrator.SetParams(p))
	s.coq = append(s.coq, fmt.Sprintf("ESetParams %s %d", coqParams(p), code))
	s.ops = append(s.ops, eOp{"op": "setparams", "p": p, "res": code})
	return code
}

func (s *engSession) checkTrav(i int) {
	t, ok := s.get(i)
	key := s.trav[i].key
	if !ok {
		if s.proj == "all" {
			s.coq = append(s.coq, fmt.Sprintf("ECheckTrav %s false 0", key))
		}
		return
	}
	switch s.proj {
	case "all", "C12":
		s.coq = append(s.coq, fmt.Sprintf("ECheckTrav %s true %d", key, hashTrav(&t)))
	case "C01":
		s.coq = append(s.coq, fmt.Sprintf("ECheckLedger %s %d", key, hashLedger(&t)))
	case "C03":
		s.coq = append(s.coq, fmt.Sprintf("ECheckBalance %s %d", key, fbits(float64(t.Balance))))
	case "C08":
		s.coq = append(s.coq, fmt.Sprintf("ECheckKept %s %d %s", key, hashPromise(7, t.Kept), Bool(t.MidTrip())))
		s.coq = append(s.coq, fmt.Sprintf("ECheckBook %s %d", key, hashBook(7, t.Promises.VerifEntries())))
	case "C10", "C09":
		s.coq = append(s.coq, fmt.Sprintf("ECheckBook %s %d", key, hashBook(7, t.Promises.VerifEntries())))
	case "C05":
		th := t.VerifTripHistory()
		s.coq = append(s.coq, fmt.Sprintf("ECheckHist %s %d %s", key, hashHist(th.VerifEntries(), th.VerifOldestChange()), Bool(midTripOf(&t))))
	case "C07":
		th := t.VerifTripHistory()
		s.coq = append(s.coq, fmt.Sprintf("ECheckFlights %s %d", key, hashHistNoEt(th.VerifEntries())))
	}
}

func (s *engSession) checkAdmin() {
	if s.proj == "all" || s.proj == "C12" || s.proj == "C10" {
		s.coq = append(s.coq, fmt.Sprintf("ECheckAdmin %d", hashAdmin(s.eng.Administrator)))
	}
}

// tableDigest hashes every stored traveller in key order (mirrors hash_table).
func (s *engSession) tableDigest() uint64 {
	it, err := s.eng.Travellers.NewIterator("")
	if err != nil {
		return 0
	}
	type kv struct {
		key string
		h   uint64
	}
	var all []kv
	for it.Next() {
		t := it.Value()
		pp := t.VerifPassport()
		all = append(all, kv{pp.VerifKey(), hashTrav(&t)})
	}
	it.Release()
	sort.Slice(all, func(a, b int) bool { return all[a].key < all[b].key })
	h := uint64(7)
	m := new(big.Int).Lsh(big.NewInt(1), 62)
	for _, e := range all {
		n := new(big.Int)
		n.SetString(e.key, 16)
		n.Mod(n, m)
		h = imix(imix(h, n.Uint64()), e.h)
	}
	return h
}

func (s *engSession) checkTable() {
	if s.proj == "all" || s.proj == "C12" || s.proj == "C04" {
		s.coq = append(s.coq, fmt.Sprintf("ECheckTable %d", s.tableDigest()))
	}
}

func coqFlights(fs []flap.VerifFlight) string {
	var l []string
	for _, f := range fs {
		l = append(l, coqFlight(f))
	}
	return List(l)
}

// newTxs returns the transactions added between two observations of the stored window (newest first)
func newTxs(before, after []flap.Transaction) ([]flap.Transaction, bool) {
	for k := 0; k <= len(after); k++ {
		// after[k:] must equal before[:len-k]
		ok := true
		for j := 0; k+j < len(after); j++ {
			a, b := after[k+j], before[j]
			if a.Date != b.Date || a.TT != b.TT || fbits(float64(a.Distance)) != fbits(float64(b.Distance)) {
				ok = false
				break
			}
		}
		if ok {
			return after[:k], true
		}
	}
	return nil, false
}

// ledgerMonitor: C01 on the real record, between two observations of one traveller
func (s *engSession) ledgerMonitor(i int, before flap.Traveller, hadBefore bool, after flap.Traveller, what string) []flap.Transaction {
	var b0 []flap.Transaction
	bal0 := 0.0
	if hadBefore {
		b0 = before.Transactions.VerifEntries()
		bal0 = float64(before.Balance)
	} else {
		b0 = make([]flap.Transaction, flap.MaxTransactions)
	}
	added, ok := newTxs(b0, after.Transactions.VerifEntries())
	if !ok {
		s.fail("C01", "ledger-window-rewritten", fmt.Sprintf("%s: the stored transactions are not 'new entries followed by the old ones'", what))
		return nil
	}
	// balance = old balance + new entries, added oldest first, bit for bit
	b := bal0
	for k := len(added) - 1; k >= 0; k-- {
		b += float64(added[k].Distance)
		s.trav[i].ledger = append(s.trav[i].ledger, float64(added[k].Distance))
	}
	if fbits(b) != fbits(float64(after.Balance)) {
		s.fail("C01", "balance-change-without-matching-transaction", fmt.Sprintf("%s: balance went from %v to %v but the %d new transactions add up to %v", what, bal0, float64(after.Balance), len(added), b))
	}
	// whole-history sum
	sum := 0.0
	abs := 0.0
	for _, x := range s.trav[i].ledger {
		sum += x
		abs += math.Abs(x)
	}
	if fbits(sum) != fbits(float64(after.Balance)) {
		s.fail("C01", "balance-differs-from-ledger-sum", fmt.Sprintf("%s: balance %v but all %d transactions ever applied sum to %v", what, float64(after.Balance), len(s.trav[i].ledger), sum))
	}
	_ = abs
	if len(s.trav[i].ledger) > 100 {
		s.stat["ledger_over_100"]++
	}
	return added
}

func (s *engSession) submit(i int, fs []flap.VerifFlight, now uint64, debit bool) int64 {
	before, had := s.get(i)
	var beforeHash uint64
	if had {
		beforeHash = hashTrav(&before)
	}
	p := s.eng.Administrator.GetParams()
	// C02 expectation from the state read just before the call
	expectGrounded := false
	c02applies := true
	if had {
		mid := midTripOf(&before)
		if mid != before.MidTrip() {
			s.fail("C02", "midtrip-disagrees-with-markers", fmt.Sprintf("MidTrip() = %v but the newest flight carries marker %d", before.MidTrip(), before.VerifTripHistory().VerifEntries()[0].Et))
		}
		clr := before.Kept.Clearance
		if clr != 0 {
			if c, err := before.Promises.VerifMatch(before.Kept); err == nil {
				clr = c
			}
		}
		keptDue := clr > 0 && uint64(clr) <= now
		expectGrounded = !mid && before.Balance < 0 && !keptDue
	}
	var real []flap.Flight
	for _, f := range fs {
		real = append(real, flap.VerifToFlight(f))
	}
	fault := ""
	if len(fs) > 0 && (!had || before.Kept.Clearance == 0) {
		fault = s.arm(expectGrounded, true)
	}
	subErr := s.eng.SubmitFlights(s.trav[i].pp, real, flap.EpochTime(now), debit)
	if fault != "" && s.disarm() {
		s.stat["checkins_with_storage_fault"]++
		if code := engErrCode(subErr); code != 0 {
			// a store call of this check-in failed and the check-in reports an error: nothing may have changed
			// (the model is not asked).  A check-in that SUCCEEDS in spite of the fault - an implementation may
			// retry - is an ordinary check-in and is judged as one below.
			s.ops = append(s.ops, eOp{"op": "submit", "t": i, "fs": fs, "now": now, "debit": debit, "res": code, "fault": fault})
			after, hasAfter := s.get(i)
			if had != hasAfter || (had && hashTrav(&after) != beforeHash) {
				s.fail("C01", "refused-checkin-changed-record", fmt.Sprintf("SubmitFlights met a storage failure (%s, result %d) but the traveller record read back afterwards changed", fault, code))
			}
			return code
		}
	}
	code := engErrCode(subErr)
	s.coq = append(s.coq, fmt.Sprintf("ESubmit %s %s %d %s %d", s.trav[i].key, coqFlights(fs), now, Bool(debit), code))
	s.ops = append(s.ops, eOp{"op": "submit", "t": i, "fs": fs, "now": now, "debit": debit, "res": code})
	s.stat["submits"]++
	after, hasAfter := s.get(i)
	if code == 0 {
		s.stat["submits_accepted"]++
		if !hasAfter {
			s.fail("C01", "accepted-checkin-not-stored", "SubmitFlights returned nil but the traveller record cannot be read")
		} else {
			added := s.ledgerMonitor(i, before, had, after, "accepted check-in")
			// exactly -d1,(-taxi),...,-dn,(-taxi) (+ one balance adjustment when that option consumed a kept promise)
			var want []float64
			if debit {
				for _, f := range fs {
					want = append(want, -float64(f.Distance))
					if p.TaxiOverhead != 0 {
						want = append(want, -float64(p.TaxiOverhead))
					}
				}
			}
			var got []float64
			for k := len(added) - 1; k >= 0; k-- {
				if added[k].TT == flap.TTBalanceAdjustment {
					continue
				}
				got = append(got, float64(added[k].Distance))
			}
			okEntries := len(got) == len(want)
			for k := 0; okEntries && k < len(got); k++ {
				okEntries = fbits(got[k]) == fbits(want[k])
			}
			if !okEntries {
				s.fail("C01", "checkin-debit-differs-from-flights", fmt.Sprintf("check-in of %d flights (debit=%v, taxi %v) recorded transactions %v, expected %v", len(fs), debit, float64(p.TaxiOverhead), got, want))
			}
			for _, f := range fs {
				s.trav[i].accepted = append(s.trav[i].accepted, f)
			}
		}
	} else {
		s.stat[fmt.Sprintf("submits_refused_%d", code)]++
		// refused or failed: the stored record is unchanged
		if had != hasAfter || (had && hashTrav(&after) != beforeHash) {
			s.fail("C01", "refused-checkin-changed-record", fmt.Sprintf("SubmitFlights returned error %d but the stored traveller record changed", code))
		}
	}
	// C02: refused as grounded iff grounded (judged on the first flight; later flights of the same
	// submission are mid-trip unless the first was inserted below a trip-end head)
	if c02applies && len(fs) > 0 && (code == 0 || code == 1) {
		firstOlder := false
		if had && len(fs) > 1 {
			es := before.VerifTripHistory().VerifEntries()
			if es[0].Start != 0 && fs[0].Start < es[0].Start {
				firstOlder = true
			}
		}
		switch {
		case expectGrounded && code == 0:
			s.fail("C02", "grounded-traveller-accepted", fmt.Sprintf("traveller not mid-trip, balance %v, no due kept promise, yet the check-in at %d was accepted", float64(before.Balance), now))
		case !expectGrounded && code == 1 && firstOlder:
			s.fail("C02", "multi-flight-first-older-than-trip-end-head", "multi-flight submission whose first flight is older than the stored trip-end head: the second flight is judged after the first was debited")
		case !expectGrounded && code == 1:
			s.fail("C02", "cleared-traveller-refused", fmt.Sprintf("traveller cleared (had=%v mid-trip or balance>=0 or kept promise due) yet refused as grounded at %d", had, now))
		}
		if expectGrounded {
			s.stat["c02_grounded_cases"]++
		} else if had && !midTripOf(&before) {
			s.stat["c02_cleared_at_trip_start"]++
		}
	}
	if s.proj != "C02" {
		s.checkTrav(i)
	}
	return code
}

type updStats struct {
	Grounded, Travellers, Flights uint64
	Distance, Share               float64
}

func (s *engSession) update(now uint64) (int64, flap.UpdateBackfillStats) {
	// snapshot of every traveller before (monitors)
	type snap struct {
		t   flap.Traveller
		had bool
	}
	befores := make([]snap, len(s.trav))
	for i := range s.trav {
		t, ok := s.get(i)
		befores[i] = snap{t, ok}
	}
	p := s.eng.Administrator.GetParams()
	prevGrounded := s.eng.Administrator.VerifTotalGrounded()
	pcBefore := s.eng.Administrator.VerifPC()
	predBefore := s.eng.Administrator.VerifPredictor()
	st, err := s.eng.UpdateTripsAndBackfill(flap.EpochTime(now))
	code := engErrCode(err)
	ps := s.eng.Administrator.VerifPredictor()
	// C10/C11: the predictor's version changes when and only when its fitted curve changes
	if predBefore.Kind == ps.Kind && ps.Kind != 0 {
		fitChanged := fbits(predBefore.M) != fbits(ps.M) || fbits(predBefore.C) != fbits(ps.C) || len(predBefore.Consts) != len(ps.Consts)
		for k := 0; !fitChanged && k < len(ps.Consts); k++ {
			fitChanged = fbits(predBefore.Consts[k]) != fbits(ps.Consts[k])
		}
		if fitChanged != (predBefore.Pv != ps.Pv) {
			s.fail("C10", "version-does-not-track-fit", fmt.Sprintf("daily update at %d: fitted curve changed = %v (m %v -> %v, c %v -> %v, constants %v -> %v) but version %d -> %d", now, fitChanged, predBefore.M, ps.M, predBefore.C, ps.C, predBefore.Consts, ps.Consts, predBefore.Pv, ps.Pv))
		}
	}
	var fit []string
	for _, c := range ps.Consts {
		fit = append(fit, fmt.Sprint(fbits(c)))
	}
	fl := func(xs []float64) string {
		var l []string
		for _, x := range xs {
			l = append(l, fmt.Sprint(fbits(x)))
		}
		return List(l)
	}
	var cdd []float64
	for _, x := range st.ClearedDistanceDeltas {
		cdd = append(cdd, float64(x))
	}
	var cdays []string
	for _, x := range st.ClearedDaysDeltas {
		cdays = append(cdays, Z(int64(x)))
	}
	mask := 127
	switch s.proj {
	case "C01", "C02", "C08", "C10", "C05", "C07", "C09":
		mask = 0
	case "C03":
		mask = 1 | 16
	case "C17":
		mask = 2 | 4 | 8
	case "C04":
		mask = 1 | 2 | 8 | 16
	}
	if s.maskOverride > 0 {
		mask = s.maskOverride
	}
	s.coq = append(s.coq, fmt.Sprintf("EUpdate %d %s %d %d (mkStatsZ %d %d %d %d %d %s %s %s %s)", now, List(fit), code, mask,
		st.Grounded, st.Travellers, fbits(float64(st.Distance)), st.Flights, fbits(float64(st.Share)), fl(cdd), List(cdays), fl(st.BestFitPoints), fl(st.BestFitConsts)))
	s.ops = append(s.ops, eOp{"op": "update", "now": now, "res": code, "grounded": st.Grounded, "share": float64(st.Share), "distance": float64(st.Distance), "flights": st.Flights, "travellers": st.Travellers})
	s.stat["updates"]++
	if code == 0 {
		// C03: share formula
		backfillers := math.Max(float64(p.MinGrounded), float64(prevGrounded))
		wantShare := 0.0
		if backfillers > 0 {
			pc := 0.0
			if p.Promises.Algo&0x20 == 0x20 {
				// correction = first smoothed value after cycling: recomputed from the state before
				w := pcBefore.BacSm.Window
				ws := pcBefore.BacSm.WindowSize
				if ws == 0 {
					ws = int(math.Max(1, float64(p.Promises.CorrectionSmoothWindow)))
					w = nil
				}
				if len(w) == ws {
					w = w[1:]
				}
				w = append(append([]float64{}, w...), float64(pcBefore.BalanceAtClearance))
				sum := 0.0
				for _, x := range w {
					sum += x
				}
				pc = sum / float64(len(w))
			}
			wantShare = (float64(p.DailyTotal) + pc) / backfillers
		}
		if fbits(wantShare) != fbits(float64(st.Share)) {
			s.fail("C03", "share-differs-from-formula", fmt.Sprintf("update(%d): share %v, formula (DailyTotal %v + correction)/max(MinGrounded %d, previously credited %d) gives %v", now, float64(st.Share), float64(p.DailyTotal), p.MinGrounded, prevGrounded, wantShare))
		}
		credited := uint64(0)
		var yDist float64
		var yFlights, yTrav uint64
		for i := range s.trav {
			after, ok := s.get(i)
			if !befores[i].had {
				continue
			}
			if !ok {
				s.fail("C03", "traveller-lost-in-update", "a stored traveller cannot be read after the update")
				continue
			}
			b := befores[i].t
			s.tripMonitors(i, &b, &after, now, p)
			added := s.ledgerMonitor(i, b, true, after, "daily update")
			// who must be credited: not mid-trip once the trip rules are applied, and negative balance.
			// "once the trip rules are applied" = MidTrip of the record after the update, unless the trip was closed
			// by keeping a promise in this very update (then it was still open when backfill was decided).
			// closed by keeping a promise in this very update: the head carries the traveller-trip-end marker
			// now and did not before (keep() runs after the backfill decision)
			hb := b.VerifTripHistory().VerifEntries()[0]
			ha := after.VerifTripHistory().VerifEntries()[0]
			keptNow := ha.Et == 3 && hb.Et != 3
			midAfterRules := midTripOf(&after)
			if keptNow {
				midAfterRules = true
			}
			should := !midAfterRules && b.Balance < 0
			nShare := 0
			for _, x := range added {
				if x.TT == flap.TTDailyShare {
					nShare++
					if fbits(float64(x.Distance)) != fbits(float64(st.Share)) {
						s.fail("C03", "credit-differs-from-share", fmt.Sprintf("traveller credited %v, share is %v", float64(x.Distance), float64(st.Share)))
					}
				} else {
					s.fail("C03", "update-wrote-non-share-transaction", fmt.Sprintf("daily update recorded a transaction of type %d", x.TT))
				}
			}
			if should && nShare != 1 {
				s.fail("C03", "grounded-traveller-not-credited-once", fmt.Sprintf("traveller %d not mid-trip with balance %v received %d shares", i, float64(b.Balance), nShare))
			}
			if !should && nShare != 0 {
				s.fail("C03", "ungrounded-traveller-credited", fmt.Sprintf("traveller %d (mid-trip after rules=%v, balance %v) received %d shares", i, midAfterRules, float64(b.Balance), nShare))
			}
			if nShare > 0 {
				credited++
			}
			if keptNow {
				s.stat["kept_in_update"]++
			}
			// C17 tally: flights departed in the preceding 24 hours
			var d float64
			var n uint64
			es := after.VerifTripHistory().VerifEntries()
			for _, f := range es {
				if f.Start != 0 && uint64(f.Start) < now && now-uint64(f.Start) <= 86400 {
					d += float64(f.Distance)
					n++
				}
			}
			if n > 0 && d > 0 {
				yTrav++
				yFlights += n
				yDist += d
			}
		}
		if credited != st.Grounded {
			s.fail("C03", "reported-grounded-differs-from-credited", fmt.Sprintf("update reports %d grounded, %d travellers were credited", st.Grounded, credited))
		}
		if s.eng.Administrator.VerifTotalGrounded() != credited {
			s.fail("C03", "carried-grounded-differs-from-credited", fmt.Sprintf("carried-forward grounded count %d, credited %d", s.eng.Administrator.VerifTotalGrounded(), credited))
		}
		if credited > 0 {
			s.stat["updates_with_credit"]++
		}
		s.stat["c17_flights_reported"] += int(st.Flights)
		_ = yDist
		_ = yFlights
		_ = yTrav
		if s.strictDaily {
			// C17 from the harness's own tally of accepted flights
			order := make([]int, len(s.trav))
			for i := range order {
				order[i] = i
			}
			sort.Slice(order, func(a, b int) bool { return s.trav[order[a]].keyHex < s.trav[order[b]].keyHex })
			var wantF, wantT uint64
			wantD := 0.0
			for _, i := range order {
				fs := append([]flap.VerifFlight{}, s.trav[i].accepted...)
				sort.SliceStable(fs, func(a, b int) bool { return fs[a].Start < fs[b].Start })
				d := 0.0
				n := uint64(0)
				for _, f := range fs {
					if uint64(f.Start) < now && now-uint64(f.Start) <= 86400 && f.Distance > 0 {
						d += float64(f.Distance)
						n++
					}
				}
				if d > 0 {
					wantD += d
					wantT++
					wantF += n
				}
			}
			if wantF != st.Flights {
				s.fail("C17", "flight-count-differs-from-flights-checked-in", fmt.Sprintf("update(%d) reports %d flights, %d accepted flights departed in the preceding 24 hours", now, st.Flights, wantF))
			}
			if wantT != st.Travellers {
				s.fail("C17", "traveller-count-differs", fmt.Sprintf("update(%d) reports %d travellers, %d distinct travellers flew in the preceding 24 hours", now, st.Travellers, wantT))
			}
			if fbits(wantD) != fbits(float64(st.Distance)) {
				if math.Abs(wantD-float64(st.Distance)) > 1e-9*math.Max(1, math.Abs(wantD)) {
					s.fail("C17", "distance-differs-from-flights-checked-in", fmt.Sprintf("update(%d) reports distance %v, accepted flights of the preceding 24 hours add up to %v", now, float64(st.Distance), wantD))
				}
			}
			if wantF > 0 {
				s.stat["c17_updates_with_flights"]++
			}
			if wantT > 1 {
				s.stat["c17_updates_with_several_travellers"]++
			}
		}
	}
	for i := range s.trav {
		if s.proj != "C02" {
			s.checkTrav(i)
		}
	}
	s.checkAdmin()
	s.checkTable()
	return code, st
}

type proposeOut struct {
	pp  *flap.Proposal
	err error
}

func (s *engSession) propose(i int, fs []flap.VerifFlight, tripEnd, now uint64) (int64, int) {
	tdBefore := s.tableDigest()
	adBefore := hashAdmin(s.eng.Administrator)
	var real []flap.Flight
	for _, f := range fs {
		real = append(real, flap.VerifToFlight(f))
	}
	ch := make(chan proposeOut, 1)
	fault := ""
	if tb, ok := s.get(i); ok && tb.Promises.VerifEntries()[0].TripStart != 0 {
		fault = s.arm(true, false) // the record of a traveller who holds promises cannot be read
	}
	go func() {
		pp, err := s.eng.Propose(s.trav[i].pp, real, flap.EpochTime(tripEnd), flap.EpochTime(now))
		ch <- proposeOut{pp, err}
	}()
	var out proposeOut
	code := int64(97)
	select {
	case out = <-ch:
		code = engErrCode(out.err)
	case <-time.After(8 * time.Second):
		s.fail("C15", "propose-hangs", fmt.Sprintf("Propose did not return within 8 s (traveller %d, now %d)", i, now))
	}
	if fault != "" && s.disarm() {
		s.stat["proposals_with_storage_fault"]++
		if code != 0 {
			// refused because the record could not be read: nothing happened, the model is not asked
			s.ops = append(s.ops, eOp{"op": "propose", "t": i, "fs": fs, "tripEnd": tripEnd, "now": now, "res": code, "fault": fault})
			if s.tableDigest() != tdBefore || hashAdmin(s.eng.Administrator) != adBefore {
				s.fail("C10", "propose-changed-stored-state", fmt.Sprintf("Propose (result %d, storage failure %s) changed the travellers table or the administrator state", code, fault))
			}
			return code, -1
		}
		// a proposal issued in spite of the failed read (an implementation may retry) is an ordinary proposal: it is
		// judged below against the stored book and by the model
	}
	slot := -1
	h := uint64(0)
	if code == 0 {
		s.props = append(s.props, out.pp)
		slot = len(s.props) - 1
		h = hashProposal(out.pp)
	}
	if code == 0 {
		// C09: the proposal is a consistent book that preserves the promises already made
		var stored flap.Promises
		if tb, ok := s.get(i); ok {
			stored = tb.Promises
		}
		bookMonitor(stored.VerifEntries(), out.pp.VerifEntries(), now, int8(s.eng.Administrator.GetParams().Promises.MaxStackSize), func(sig, what string) {
			s.fail("C09", sig, what)
		})
	}
	// C10: no room while the trip of the oldest of ten promises has not ended
	if tb, ok := s.get(i); ok && code == 0 {
		es := tb.Promises.VerifEntries()
		if es[9].TripStart != 0 && uint64(es[9].TripEnd) >= now {
			s.fail("C10", "proposal-accepted-without-room", fmt.Sprintf("the book holds ten promises and the trip of the oldest (%d..%d, clearance %d) has not ended at %d, yet the proposal was accepted and drops it", es[9].TripStart, es[9].TripEnd, es[9].Clearance, now))
		}
	}
	s.coq = append(s.coq, fmt.Sprintf("EPropose %s %s %d %d %d %d%%nat %d", s.trav[i].key, coqFlights(fs), tripEnd, now, code, max0(slot), h))
	s.ops = append(s.ops, eOp{"op": "propose", "t": i, "fs": fs, "tripEnd": tripEnd, "now": now, "res": code, "slot": slot})
	s.stat["proposals"]++
	s.stat[fmt.Sprintf("propose_res_%d", code)]++
	// C10: requesting a proposal never changes stored state
	if s.tableDigest() != tdBefore || hashAdmin(s.eng.Administrator) != adBefore {
		s.fail("C10", "propose-changed-stored-state", fmt.Sprintf("Propose (result %d) changed the travellers table or the administrator state", code))
	}
	return code, slot
}

func max0(x int) int {
	if x < 0 {
		return 0
	}
	return x
}

func (s *engSession) make(i int, slot int, now uint64, issuedVersion uint64) int64 {
	before, had := s.get(i)
	curVersion := s.eng.Administrator.VerifPredictor().Pv
	code := engErrCode(s.eng.Make(s.trav[i].pp, s.props[slot], flap.EpochTime(now)))
	s.coq = append(s.coq, fmt.Sprintf("EMake %s %d%%nat %d %d", s.trav[i].key, slot, now, code))
	s.ops = append(s.ops, eOp{"op": "make", "t": i, "slot": slot, "now": now, "res": code})
	s.stat["makes"]++
	after, hasAfter := s.get(i)
	// C10: applied iff the prediction model has not changed since the proposal was issued
	if s.eng.Administrator.VerifValidPredictor() {
		if (curVersion == issuedVersion) != (code == 0) {
			s.fail("C10", "make-currentness-rule-broken", fmt.Sprintf("proposal issued at model version %d, current version %d, Make returned %d", issuedVersion, curVersion, code))
		}
	}
	if code == 0 {
		if !hasAfter || hashBook(7, after.Promises.VerifEntries()) != hashBook(7, s.props[slot].VerifEntries()) {
			s.fail("C10", "make-installed-other-promises", "Make succeeded but the stored promises differ from the proposed ones")
		}
		// ... and nothing but the promises: the rest of the record is what was stored just before Make
		if had && hasAfter {
			cp := after
			cp.Promises = before.Promises
			if hashTrav(&cp) != hashTrav(&before) {
				s.fail("C10", "make-changed-more-than-promises", fmt.Sprintf("Make succeeded and changed more than the promises: balance %v -> %v, kept clearance %d -> %d, mid-trip %v -> %v (record read just before Make vs just after)", float64(before.Balance), float64(after.Balance), before.Kept.Clearance, after.Kept.Clearance, midTripOf(&before), midTripOf(&after)))
			}
		}
		s.stat["makes_ok"]++
	} else {
		if had != hasAfter || (had && hashTrav(&before) != hashTrav(&after)) {
			s.fail("C10", "failed-make-changed-record", fmt.Sprintf("Make returned %d but the traveller record changed", code))
		}
		if code == 16 {
			s.stat["makes_stale"]++
		}
	}
	s.checkTrav(i)
	return code
}

func (s *engSession) endTrip(i int) bool {
	t, ok := s.get(i)
	res := false
	if ok && t.EndTrip() == nil && s.eng.Travellers.PutTraveller(t) == nil {
		res = true
	}
	s.coq = append(s.coq, fmt.Sprintf("EEndTrip %s %s", s.trav[i].key, Bool(res)))
	s.ops = append(s.ops, eOp{"op": "endtrip", "t": i, "ok": res})
	return res
}

func (s *engSession) reopenTrip(i int) bool {
	t, ok := s.get(i)
	res := false
	if ok && t.ReopenTrip() == nil && s.eng.Travellers.PutTraveller(t) == nil {
		res = true
	}
	s.coq = append(s.coq, fmt.Sprintf("EReopen %s %s", s.trav[i].key, Bool(res)))
	s.ops = append(s.ops, eOp{"op": "reopen", "t": i, "ok": res})
	return res
}

const engRequires = "From Coq Require Import ZArith List.\nFrom Flap Require Import Model.TripHistory Model.Engine Run.RunTH Run.RunEngine.\nImport ListNotations.\nOpen Scope Z_scope."

func engFlush(o *Out, prefix string) {
	o.FlushCases(prefix, engRequires, "list (list eop)", "e_mismatches 0%nat", 16)
}

// tripMonitors: C05 and C07 stated on the stored record of one traveller before and after a daily update
func (s *engSession) tripMonitors(i int, before, after *flap.Traveller, now uint64, p flap.FlapParams) {
	bh, ah := before.VerifTripHistory(), after.VerifTripHistory()
	be, ae := bh.VerifEntries(), ah.VerifEntries()
	for k := range ae {
		if !dataEq(be[k], ae[k]) {
			s.fail("C07", "update-altered-flight-data", fmt.Sprintf("daily update changed entry %d of traveller %d from %+v to %+v", k, i, be[k], ae[k]))
			break
		}
		if be[k].Et == 3 && ae[k].Et != 3 {
			s.fail("C07", "update-changed-traveller-trip-end", fmt.Sprintf("daily update changed the traveller's trip-end marker at entry %d to %d", k, ae[k].Et))
			break
		}
	}
	if midTripOf(after) && ae[0].Start != 0 {
		st, n := openTrip(ae)
		db := int64(flap.VerifDaysBetween(st, flap.EpochTime(now)))
		if db > int64(p.TripLength) {
			s.fail("C05", "mid-trip-beyond-trip-length", fmt.Sprintf("after the daily update at %d traveller %d is still mid-trip: open trip started %d whole days ago, TripLength %d", now, i, db, p.TripLength))
		}
		if uint64(n) >= p.FlightsInTrip {
			s.fail("C05", "mid-trip-with-max-flights", fmt.Sprintf("after the daily update at %d traveller %d is still mid-trip with %d flights in the open trip, FlightsInTrip %d", now, i, n, p.FlightsInTrip))
		}
		s.stat["c05_midtrip_after_update"]++
	}
	if midTripOf(before) && !midTripOf(after) {
		s.stat["c05_trips_closed_by_update"]++
	}
}
