package main

import (
	"strings"
	"runtime"
	"fmt"
	"io"
	"math"
	"os"
	"path/filepath"
	"sort"

	"github.com/richardmorrey/flap/pkg/db"
	"github.com/richardmorrey/flap/pkg/flap"
)

func init() { runners["C04"] = runC04 }

func copyTree(src, dst string) error {
	return filepath.Walk(src, func(p string, info os.FileInfo, err error) error {
		if err != nil {
			return err
		}
		rel, _ := filepath.Rel(src, p)
		target := filepath.Join(dst, rel)
		if info.IsDir() {
			return os.MkdirAll(target, 0o755)
		}
		if info.Name() == "LOCK" || info.Name() == "flap.log" {
			return nil
		}
		in, err := os.Open(p)
		if err != nil {
			return err
		}
		defer in.Close()
		out, err := os.Create(target)
		if err != nil {
			return err
		}
		defer out.Close()
		_, err = io.Copy(out, in)
		return err
	})
}

type c04Obs struct {
	th                          byte
	table                       uint64
	carried                     uint64
	grounded, travellers, flights uint64
	share, distance             float64
	cdd                         []float64
	cdays                       []int64
	code                        int64
}

// carriedHash: administrator state that is carried forward, without the thread setting
func carriedHash(a *flap.Administrator) uint64 {
	h := hashPred(7, a.VerifPredictor())
	pc := a.VerifPC()
	h = hashFloat(hashSmooth(hashFloat(hashSmooth(h, pc.BacSm), float64(pc.BalanceAtClearance)), pc.CdSm), float64(pc.ClearedDistance))
	h = hashFloat(h, float64(pc.BacPerKm))
	return imix(h, a.VerifTotalGrounded()&mask63)
}

func genC04(rng *Rng, workdir string) *engSession {
	s := newEngSession(workdir, "C04")
	cfg := engCfg{promises: -1}
	p := pickEngParams(rng, cfg)
	p.Threads = 1
	s.setParams(p)
	// key distribution: one crowded shard, some empty shards
	n := rng.Range(12, 60)
	if rng.Chance(1, 6) {
		n = rng.Range(150, 320)
	}
	used := map[string]bool{}
	crowded := rng.Intn(16)
	allowed := map[int]bool{crowded: true}
	for k := 0; k < rng.Range(2, 9); k++ {
		allowed[rng.Intn(16)] = true
	}
	var nibbles []int
	for k := range allowed {
		nibbles = append(nibbles, k)
	}
	sort.Ints(nibbles)
	for i := 0; i < n; i++ {
		nb := crowded
		if !rng.Chance(1, 2) {
			nb = nibbles[rng.Intn(len(nibbles))]
		}
		s.addTraveller(passportWithPrefix(rng, nb, used))
	}
	s.stat["c04_shards_used"] += len(nibbles)
	day := uint64(rng.Range(17500, 19500))
	nAir := 5
	mk := func(d uint64, sec uint64, from, to int, dist float64) flap.VerifFlight {
		st := d*86400 + sec
		return flap.VerifFlight{Start: flap.EpochTime(st), End: flap.EpochTime(st + uint64(rng.Range(3000, 30000))), From: icaoOf(from), To: icaoOf(to), Distance: flap.Kilometres(dist)}
	}
	days := rng.Range(3, 6)
	s.proj = "none" // no per-step checks while building the image
	// promised trips that are really flown, so that kept promises (and their cleared-balance deltas in the
	// update statistics) exist in several shards when the compared update runs
	type c04trip struct{ f1, f2 flap.VerifFlight }
	flown := map[int]*c04trip{}
	for d := 0; d < days; d++ {
		now := day * 86400
		s.update(now)
		for i := range s.trav {
			if tr := flown[i]; tr != nil {
				if uint64(tr.f1.Start)/86400 == day {
					s.submit(i, []flap.VerifFlight{tr.f1}, uint64(tr.f1.Start), true)
				}
				if uint64(tr.f2.Start)/86400 == day {
					s.submit(i, []flap.VerifFlight{tr.f2}, uint64(tr.f2.Start), true)
				}
				continue
			}
			if p.Promises.Algo != 0 && d <= 1 && rng.Chance(1, 2) {
				sd := day + uint64(rng.Range(0, 2))
				dist := 200 + 1500*rng.F01()
				f1 := mk(sd, uint64(rng.Range(2000, 30000)), 1, 2, dist)
				f1.End = f1.Start + 3000
				f2 := mk(sd+1, uint64(rng.Range(2000, 30000)), 2, 1, dist)
				f2.End = f2.Start + 3000
				if code, slot := s.propose(i, []flap.VerifFlight{f1, f2}, 0, now+20); code == 0 {
					if s.make(i, slot, now+30, s.props[slot].VerifVersion()) == 0 {
						flown[i] = &c04trip{f1, f2}
						if sd == day {
							s.submit(i, []flap.VerifFlight{f1}, uint64(f1.Start), true)
						}
						continue
					}
				}
			}
			if rng.Chance(1, 2) {
				a, b := rng.Intn(nAir), rng.Intn(nAir)
				s.submit(i, []flap.VerifFlight{mk(day, uint64(rng.Intn(80000)), a, b, 100+9000*rng.F01())}, now+10, !rng.Chance(1, 8))
			}
			if p.Promises.Algo != 0 && rng.Chance(1, 6) {
				sd := day + uint64(rng.Range(1, 5))
				f1 := mk(sd, 1000, 1, 2, 500.5)
				f2 := mk(sd+1, 1000, 2, 1, 500.5)
				if code, slot := s.propose(i, []flap.VerifFlight{f1, f2}, 0, now+20); code == 0 {
					s.make(i, slot, now+30, s.props[slot].VerifVersion())
				}
			}
			if rng.Chance(1, 15) {
				s.endTrip(i)
			}
		}
		day++
	}
	s.proj = "C04"
	now := day * 86400
	// freeze the image
	s.eng.Release()
	s.ldb.Release()
	s.coq = append(s.coq, "ESave")
	s.ops = append(s.ops, eOp{"op": "save-image"})
	var obs []c04Obs
	origDir := s.dir
	// "every interleaving of its workers" includes machines with any number of processors: the six updates
	// of some images run with the Go scheduler limited to 1, 2, 3, 5 or 7 processors
	if procs := []int{0, 0, 0, 1, 2, 3, 5, 7, 3, 5}[rng.Intn(10)]; procs > 0 {
		old := runtime.GOMAXPROCS(procs)
		defer runtime.GOMAXPROCS(old)
		s.stat[fmt.Sprintf("c04_gomaxprocs_%d", procs)]++
	}
	for _, th := range []byte{0, 1, 2, 4, 8, 16} {
		cp := fmt.Sprintf("%s_th%d", origDir, th)
		os.RemoveAll(cp)
		if err := copyTree(origDir, cp); err != nil {
			panic(err)
		}
		s.ldb = db.NewLevelDB(cp)
		s.eng = flap.NewEngine(s.ldb, 0, cp)
		s.coq = append(s.coq, "ERestore")
		s.ops = append(s.ops, eOp{"op": "restore-image", "threads": th})
		p2 := p
		p2.Threads = th
		s.setParams(p2)
		if th <= 1 {
			s.maskOverride = 127
		} else {
			s.maskOverride = 1 | 2 | 8 | 16 | 64
		}
		code, st := s.update(now)
		s.maskOverride = 0
		s.checkAdmin()
		o := c04Obs{th: th, table: s.tableDigest(), carried: carriedHash(s.eng.Administrator), grounded: st.Grounded,
			travellers: st.Travellers, flights: st.Flights, share: float64(st.Share), distance: float64(st.Distance), code: code}
		for _, x := range st.ClearedDistanceDeltas {
			o.cdd = append(o.cdd, float64(x))
		}
		for _, x := range st.ClearedDaysDeltas {
			o.cdays = append(o.cdays, int64(x))
		}
		sort.Float64s(o.cdd)
		sort.Slice(o.cdays, func(a, b int) bool { return o.cdays[a] < o.cdays[b] })
		obs = append(obs, o)
		s.ldb.Release()
		os.RemoveAll(cp)
	}
	s.ldb = nil
	// monitor: all six outcomes agree
	ref := obs[1]
	for _, o := range obs {
		if o.code != ref.code || o.table != ref.table {
			s.fail("C04", "stored-records-differ-between-thread-settings", fmt.Sprintf("Threads=%d and Threads=%d leave different traveller tables (digest %d vs %d)", ref.th, o.th, ref.table, o.table))
		}
		if o.carried != ref.carried {
			s.fail("C04", "carried-state-differs-between-thread-settings", fmt.Sprintf("Threads=%d and Threads=%d carry forward different administrator state", ref.th, o.th))
		}
		if o.grounded != ref.grounded || o.travellers != ref.travellers || o.flights != ref.flights || fbits(o.share) != fbits(ref.share) {
			s.fail("C04", "totals-differ-between-thread-settings", fmt.Sprintf("Threads=%d: grounded %d travellers %d flights %d share %v; Threads=%d: %d %d %d %v", ref.th, ref.grounded, ref.travellers, ref.flights, ref.share, o.th, o.grounded, o.travellers, o.flights, o.share))
		}
		if len(ref.cdd)+len(ref.cdays) > 1 {
			s.stat["c04_cleared_deltas_reported"]++
		}
		if fmt.Sprint(o.cdd) != fmt.Sprint(ref.cdd) || fmt.Sprint(o.cdays) != fmt.Sprint(ref.cdays) {
			s.fail("C04", "cleared-deltas-differ-between-thread-settings", fmt.Sprintf("Threads=%d and Threads=%d report different cleared-balance deltas", ref.th, o.th))
		}
		if fbits(o.distance) != fbits(ref.distance) {
			rel := math.Abs(o.distance-ref.distance) / math.Max(1, math.Abs(ref.distance))
			if rel < 1e-9 {
				s.fail("C04", "distance-total-rounding-differs-between-thread-settings", fmt.Sprintf("Distance total %v (Threads=%d) vs %v (Threads=%d): same flights, float64 additions associated differently", ref.distance, ref.th, o.distance, o.th))
			} else {
				s.fail("C04", "distance-total-differs-between-thread-settings", fmt.Sprintf("Distance total %v (Threads=%d) vs %v (Threads=%d)", ref.distance, ref.th, o.distance, o.th))
			}
		}
	}
	if ref.grounded > 0 && ref.travellers > 1 {
		s.stat["c04_nontrivial"]++
	}
	return s
}

// genC04Big: more changed travellers than one worker's write batch holds (10000), so that batch
// flushing inside a worker is exercised; compared between thread settings in Go only (too large to
// replay in the model).
func genC04Big(rng *Rng, workdir string) []MonitorFailure {
	s := newEngSession(workdir, "none")
	p := pickEngParams(rng, engCfg{promises: 0})
	p.Threads = 1
	p.MinGrounded = 1
	s.eng.Administrator.SetParams(p)
	n := 10000 + rng.Range(50, 700)
	day := uint64(rng.Range(17500, 19500))
	for i := 0; i < n; i++ {
		pp := flap.NewPassport(fmt.Sprintf("%09d", i), "GBR")
		f := flap.VerifToFlight(flap.VerifFlight{Start: flap.EpochTime(day*86400 + uint64(10+i%80000)), End: flap.EpochTime(day*86400 + 86000), From: icaoOf(1), To: icaoOf(2), Distance: flap.Kilometres(100 + float64(i%977))})
		s.eng.SubmitFlights(pp, []flap.Flight{f}, flap.EpochTime(day*86400+5), i%3 != 0)
	}
	now := (day + 1) * 86400
	s.eng.Release()
	s.ldb.Release()
	orig := s.dir
	var fails []MonitorFailure
	var ref *c04Obs
	for _, th := range []byte{1, 16, 0, 4} {
		cp := fmt.Sprintf("%s_big%d", orig, th)
		os.RemoveAll(cp)
		if err := copyTree(orig, cp); err != nil {
			panic(err)
		}
		ldb := db.NewLevelDB(cp)
		eng := flap.NewEngine(ldb, 0, cp)
		p2 := p
		p2.Threads = th
		eng.Administrator.SetParams(p2)
		st, err := eng.UpdateTripsAndBackfill(flap.EpochTime(now))
		tmp := &engSession{eng: eng}
		ob := &c04Obs{th: th, table: tmp.tableDigest(), carried: carriedHash(eng.Administrator), grounded: st.Grounded, travellers: st.Travellers, flights: st.Flights, share: float64(st.Share), code: engErrCode(err)}
		ldb.Release()
		os.RemoveAll(cp)
		if ref == nil {
			ref = ob
			continue
		}
		if ob.table != ref.table || ob.carried != ref.carried || ob.grounded != ref.grounded || ob.travellers != ref.travellers || ob.flights != ref.flights || ob.code != ref.code {
			fails = append(fails, MonitorFailure{Property: "C04", Signature: "large-population-outcome-differs-between-thread-settings",
				What:   fmt.Sprintf("%d travellers (more than one 10000-record write batch): Threads=%d gives table digest %d grounded %d travellers %d flights %d, Threads=%d gives %d %d %d %d", n, ref.th, ref.table, ref.grounded, ref.travellers, ref.flights, ob.th, ob.table, ob.grounded, ob.travellers, ob.flights),
				Replay: map[string]interface{}{"travellers": n, "threads": []byte{ref.th, ob.th}, "params": p}})
		}
	}
	s.ldb = nil
	os.RemoveAll(orig)
	return fails
}

func runC04(o *Out, rng *Rng, tier string, replay string) {
	n := 40
	if tier == "thorough" {
		n = 500
	} else if tier == "search" {
		n = 120
	}
	o.sum.Rule = "case = a database image (12-320 travellers whose SHA1 keys are searched so that one shard is crowded and several are empty; a few days of check-ins, promises, promised trips that are flown and kept so that cleared-balance deltas are reported from several shards, closes) on which the same daily update is run, from identical copies, at Threads = 0,1,2,4,8,16 (for a third of the images with the Go scheduler limited to 1, 2, 3, 5 or 7 processors); the model replays the history and all six updates (save/restore); table digest, carried administrator state, share and integer totals must be equal across settings and equal to the model's; non-trivial = the update credited somebody and counted flights of more than one traveller; distinct by script hash"
	wd := filepath.Join(o.dir, "dbs")
	for c := 0; c < n; c++ {
		s := genC04(rng.Fork(), wd)
		keepFails(o, s, "C04")
		engNote(o, s)
		for k, v := range s.stat {
			if strings.HasPrefix(k, "c04_gomaxprocs_") {
				o.CountN(k, v)
			}
		}
		o.AddCase(List(s.coq), s.stat["c04_nontrivial"] > 0, s.ops)
		s.close()
	}
	nbig := 1
	if tier == "thorough" {
		nbig = 3
	}
	for k := 0; k < nbig; k++ {
		for _, f := range genC04Big(rng.Fork(), wd) {
			o.Fail(f)
		}
		o.Count("large_population_scenarios")
	}
	// the RESULT of the update must not depend on the order in which the workers report either: with a
	// store call of one worker failing (and the healthy workers made to report after it) the update returns an
	// error under every thread setting
	fr := rng.Fork()
	for wi, threads := range []int{2, 4, 8, 16} {
		c04FaultArrival(o, fr.Fork(), filepath.Join(wd, "arr"), wi, threads)
	}
	engFlush(o, "C04")
}

func c04FaultArrival(o *Out, r *Rng, wd string, wi int, threads int) {
	os.MkdirAll(wd, 0o755)
	w := buildWorld(r, filepath.Join(wd, fmt.Sprintf("m%04d", wi)), threads)
	defer os.RemoveAll(w.dir)
	scratch := filepath.Join(wd, fmt.Sprintf("ms%04d", wi))
	defer os.RemoveAll(scratch)
	base, traces, _ := runUpdateMT(w, scratch, -1, 0)
	if base.err != nil {
		return
	}
	for wn, tr := range traces {
		done := 0
		for i, k := range tr {
			if k != "batchput" && k != "flush" && k != "newiter" {
				continue
			}
			if done >= 2 {
				break
			}
			res, _, fired := runUpdateMT(w, scratch, wn, i)
			if !fired {
				continue
			}
			done++
			o.Count("updates_with_one_failing_worker")
			if res.err == nil && !res.pan {
				o.Fail(MonitorFailure{Property: "C04", Signature: "update-result-depends-on-worker-arrival-order",
					What: fmt.Sprintf("daily update with %d threads: call %d (%s) of worker %d failed and the healthy workers reported after it: the update returned success (with the failing worker reporting last it returns the error)", threads, i, k, wn),
					Replay: map[string]interface{}{"world": wi, "op": "update", "threads": threads, "worker": wn, "call": i, "kind": k}})
			}
		}
	}
}
