// Command harness drives the real richardmorrey/flap code (built from /repo's working tree
// with -tags verif) on generated inputs, records what it observed as Coq case files for the
// model to be evaluated on, and runs Go-side property monitors that search for failing inputs.
package main

import (
	"flag"
	"fmt"
	"os"
)

type runner func(o *Out, rng *Rng, tier string, replay string)

var runners = map[string]runner{}

func main() {
	if len(os.Args) < 2 {
		fmt.Fprintln(os.Stderr, "usage: harness <property> -seed N -tier quick|thorough -out DIR [-replay FILE]")
		os.Exit(2)
	}
	prop := os.Args[1]
	if prop == "C20TRACE" && len(os.Args) >= 3 { // child process: the simulation on a recorded database
		c20TraceChild(os.Args[2])
		return
	}
	if prop == "C20SIM" && len(os.Args) >= 4 { // child process of the C20 simulation stream
		c20SimChild(os.Args[2], os.Args[3])
		return
	}
	fs := flag.NewFlagSet("harness", flag.ExitOnError)
	seed := fs.Uint64("seed", 1, "seed")
	tier := fs.String("tier", "quick", "tier")
	out := fs.String("out", "", "output directory")
	replay := fs.String("replay", "", "replay file")
	fs.Parse(os.Args[2:])
	r, ok := runners[prop]
	if !ok {
		fmt.Fprintln(os.Stderr, "unknown property", prop)
		os.Exit(2)
	}
	o := NewOut(*out, prop, *tier, *seed)
	r(o, NewRng(*seed), *tier, *replay)
	o.Finish()
}
