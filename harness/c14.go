package main

import (
	"bytes"
	"errors"
	"fmt"
	"os"
	"path/filepath"
	"runtime"
	"strconv"
	"sync"
	"time"

	"github.com/richardmorrey/flap/pkg/db"
	"github.com/richardmorrey/flap/pkg/flap"
)

func init() { runners["C14"] = runC14 }

// ---------- a db.Database that fails chosen calls ----------

var errInjected = errors.New("injected storage fault")

type faultPlan struct {
	n      int          // store calls seen so far (in call order)
	fail   map[int]bool // absolute call indices that fail
	trace  []string     // kind of every call
	active bool
	mt     *mtPlan // multi-threaded update: faults addressed per worker
	// real failures: at these call indices the travellers table is closed underneath the engine just
	// before the call, so that the real goleveldb write/read path fails (nothing is injected)
	closeAt map[int]bool
	closer  func()
}

// mtPlan addresses a fault as (worker, i): the i-th store call made by the update worker that owns
// the key prefixes [worker*delta, (worker+1)*delta).  Workers are told apart by goroutine; a
// goroutine's worker number is known from the first prefix it iterates.  i = 0 is the worker's
// MakeBatch, which happens before the worker is known: it fails for whichever worker asks first
// (they are interchangeable at that point).  The final flush of every worker that is not the
// target waits until the fault has been injected, so the failing worker always reports first and
// healthy workers after it (the order in which a later result could hide an earlier error).
type mtPlan struct {
	mu       sync.Mutex
	delta    int
	workers  map[uint64]*mtWorker
	targetW  int // -1: none
	targetI  int
	fired    bool
	firedCh  chan struct{}
	snapshot bool // main-goroutine snapshot call seen
}
type mtWorker struct {
	w     int // -1 until known
	n     int
	trace []string
	hit   bool
}

func goid() uint64 {
	var buf [64]byte
	b := buf[:runtime.Stack(buf[:], false)]
	b = bytes.TrimPrefix(b, []byte("goroutine "))
	b = b[:bytes.IndexByte(b, ' ')]
	n, _ := strconv.ParseUint(string(b), 10, 64)
	return n
}

func (m *mtPlan) call(kind string, prefix string) bool {
	m.mu.Lock()
	defer m.mu.Unlock()
	g := goid()
	wk := m.workers[g]
	if wk == nil {
		wk = &mtWorker{w: -1}
		m.workers[g] = wk
	}
	if kind == "newiter" && wk.w < 0 {
		wk.w = int(hexVal(prefix[0])) / m.delta
	}
	i := wk.n
	wk.n++
	wk.trace = append(wk.trace, kind)
	if m.targetW < 0 || m.fired {
		return false
	}
	if (m.targetI == 0 && i == 0) || (i > 0 && wk.w == m.targetW && i == m.targetI) {
		m.fired = true
		wk.hit = true
		close(m.firedCh)
		return true
	}
	return false
}

// holdBeforeFlush: called by a worker about to do its final flush
func (m *mtPlan) holdBeforeFlush() {
	m.mu.Lock()
	g := goid()
	wk := m.workers[g]
	wait := m.targetW >= 0 && !m.fired && wk != nil && !(m.targetI > 0 && wk.w == m.targetW)
	m.mu.Unlock()
	if wait {
		select {
		case <-m.firedCh:
		case <-time.After(400 * time.Millisecond):
		}
	}
}

func (p *faultPlan) hit(kind string) bool { return p.hitp(kind, "") }
func (p *faultPlan) hitp(kind string, prefix string) bool {
	if !p.active {
		return false
	}
	if p.mt != nil {
		if kind == "snapshot" {
			p.mt.snapshot = true
			return false
		}
		return p.mt.call(kind, prefix)
	}
	i := p.n
	p.n++
	p.trace = append(p.trace, kind)
	if p.closeAt[i] && p.closer != nil {
		p.closer()
		p.closer = nil
	}
	return p.fail[i]
}

type faultDB struct {
	inner db.Database
	plan  *faultPlan
}

func (d *faultDB) OpenTable(n string) (db.Table, error) {
	t, err := d.inner.OpenTable(n)
	if err != nil {
		return nil, err
	}
	return &faultTable{t, d.plan}, nil
}
func (d *faultDB) CreateTable(n string) (db.Table, error) {
	t, err := d.inner.CreateTable(n)
	if err != nil {
		return nil, err
	}
	return &faultTable{t, d.plan}, nil
}
func (d *faultDB) CloseTable(n string) error { return d.inner.CloseTable(n) }
func (d *faultDB) DropTable(n string) error  { return d.inner.DropTable(n) }
func (d *faultDB) Release() error            { return d.inner.Release() }

type faultTable struct {
	inner db.Table
	plan  *faultPlan
}

func (t *faultTable) Get(k string, s db.Serialize) error {
	if t.plan.hit("get") {
		return errInjected
	}
	return t.inner.Get(k, s)
}
func (t *faultTable) Put(k string, s db.Serialize) error {
	if t.plan.hit("put") {
		return errInjected
	}
	return t.inner.Put(k, s)
}
func (t *faultTable) Delete(k string) error { return t.inner.Delete(k) }
func (t *faultTable) NewIterator(p string) (db.Iterator, error) {
	return t.inner.NewIterator(p)
}
func (t *faultTable) TakeSnapshot() (db.Snapshot, error) {
	if t.plan.hit("snapshot") {
		return nil, errInjected
	}
	s, err := t.inner.TakeSnapshot()
	if err != nil {
		return nil, err
	}
	return &faultSnap{s, t.plan}, nil
}
func (t *faultTable) MakeBatch(n int) (db.BatchWrite, error) {
	if t.plan.hit("makebatch") {
		return nil, errInjected
	}
	b, err := t.inner.MakeBatch(n)
	if err != nil {
		return nil, err
	}
	return &faultBatch{b, t.plan}, nil
}

type faultSnap struct {
	inner db.Snapshot
	plan  *faultPlan
}

func (s *faultSnap) Get(k string, x db.Serialize) error { return s.inner.Get(k, x) }
func (s *faultSnap) Release() error                     { return s.inner.Release() }
func (s *faultSnap) NewIterator(p string) (db.Iterator, error) {
	if s.plan.hitp("newiter", p) {
		return nil, errInjected
	}
	it, err := s.inner.NewIterator(p)
	if err != nil {
		return nil, err
	}
	return &faultIter{inner: it, plan: s.plan}, nil
}

type faultIter struct {
	inner   db.Iterator
	plan    *faultPlan
	checked bool
	failed  bool
}

func (i *faultIter) Next() bool            { return i.inner.Next() }
func (i *faultIter) Key() string           { return i.inner.Key() }
func (i *faultIter) Value(s db.Serialize)  { i.inner.Value(s) }
func (i *faultIter) Release() error        { return i.inner.Release() }
func (i *faultIter) Error() error {
	// the first Error() call after the loop is the one the code acts upon
	if !i.checked {
		i.checked = true
		i.failed = i.plan.hit("itererr")
	}
	if i.failed {
		return errInjected
	}
	return i.inner.Error()
}

type faultBatch struct {
	inner db.BatchWrite
	plan  *faultPlan
}

func (b *faultBatch) Put(k string, s db.Serialize) error {
	if b.plan.hit("batchput") {
		return errInjected
	}
	return b.inner.Put(k, s)
}
func (b *faultBatch) Delete(k string) error { return b.inner.Delete(k) }
func (b *faultBatch) Release() error {
	if b.plan.mt != nil && b.plan.active {
		b.plan.mt.holdBeforeFlush()
	}
	if b.plan.hit("flush") {
		return errInjected
	}
	return b.inner.Release()
}

// ---------- scenario ----------

type c14World struct {
	dir    string
	pps    []flap.Passport
	now    uint64
	params flap.FlapParams
}

// buildWorld prepares a database image (no faults): travellers with flights and balances such that
// the next update changes several records, and promises enabled.
func buildWorld(rng *Rng, dir string, threads int) *c14World {
	os.RemoveAll(dir)
	os.MkdirAll(dir, 0o755)
	ldb := db.NewLevelDB(dir)
	eng := flap.NewEngine(ldb, 0, dir)
	var p flap.FlapParams
	p.TripLength, p.FlightsInTrip, p.FlightInterval = 5, 6, 1
	p.DailyTotal, p.MinGrounded = flap.Kilometres(500+5000*rng.F01()), 1
	p.Promises = flap.PromisesConfig{Algo: flap.PromisesAlgo(1 + rng.Intn(2)), MaxPoints: 6, MaxDays: 30, MaxStackSize: 3, Degree: 1}
	if rng.Chance(1, 4) {
		p.Promises.Algo = 0
	}
	p.Threads = byte(threads)
	eng.Administrator.SetParams(p)
	w := &c14World{dir: dir, params: p}
	used := map[string]bool{}
	n := rng.Range(2, 9)
	if threads > 1 {
		n = rng.Range(8, 20)
	}
	day := uint64(rng.Range(17500, 19500))
	for i := 0; i < n; i++ {
		w.pps = append(w.pps, flap.NewPassport(passportWithPrefix(rng, -1, used), "GBR"))
	}
	for d := 0; d < 4; d++ {
		eng.UpdateTripsAndBackfill(flap.EpochTime(day * 86400))
		for i := range w.pps {
			if rng.Chance(2, 3) {
				f := flap.VerifToFlight(flap.VerifFlight{Start: flap.EpochTime(day*86400 + uint64(rng.Range(100, 80000))), End: flap.EpochTime(day*86400 + 85000), From: icaoOf(1), To: icaoOf(2), Distance: flap.Kilometres(100 + 3000*rng.F01())})
				eng.SubmitFlights(w.pps[i], []flap.Flight{f}, flap.EpochTime(day*86400+50), true)
			}
		}
		day++
	}
	w.now = day * 86400
	eng.Release()
	ldb.Release()
	return w
}

type c14Result struct {
	err    error
	digest uint64
	admin  uint64
	trace  []string
	pan    bool
}

// runOp runs one operation on a fresh copy of the image with the given faults and returns what it
// reported and the state a clean reopen then finds.
func runOp(w *c14World, scratch string, op string, fail map[int]bool, rng *Rng) (res c14Result) {
	return runOpClose(w, scratch, op, fail, nil, rng)
}

// runOpClose: like runOp; at the call indices in closeAt the travellers table is closed underneath
func runOpClose(w *c14World, scratch string, op string, fail map[int]bool, closeAt map[int]bool, rng *Rng) (res c14Result) {
	os.RemoveAll(scratch)
	if err := copyTree(w.dir, scratch); err != nil {
		panic(err)
	}
	ldb := db.NewLevelDB(scratch)
	plan := &faultPlan{fail: fail, closeAt: closeAt}
	plan.closer = func() { ldb.CloseTable("travellers") }
	fdb := &faultDB{ldb, plan}
	eng := flap.NewEngine(fdb, 0, scratch)
	func() {
		defer func() {
			if r := recover(); r != nil {
				res.pan = true
				res.err = fmt.Errorf("panic: %v", r)
			}
		}()
		switch op {
		case "submit":
			f := flap.VerifToFlight(flap.VerifFlight{Start: flap.EpochTime(w.now + 5000), End: flap.EpochTime(w.now + 9000), From: icaoOf(2), To: icaoOf(3), Distance: 777.25})
			plan.active = true
			res.err = eng.SubmitFlights(w.pps[0], []flap.Flight{f}, flap.EpochTime(w.now+100), true)
		case "make", "makestale":
			f1 := flap.VerifToFlight(flap.VerifFlight{Start: flap.EpochTime(w.now + 5*86400), End: flap.EpochTime(w.now + 5*86400 + 4000), From: icaoOf(2), To: icaoOf(3), Distance: 555.5})
			pp, err := eng.Propose(w.pps[1%len(w.pps)], []flap.Flight{f1}, 0, flap.EpochTime(w.now))
			if err != nil {
				res.err = errors.New("setup: no proposal")
				return
			}
			if op == "makestale" {
				pp.VerifSetVersion(pp.VerifVersion() + 7)
			}
			plan.active = true
			res.err = eng.Make(w.pps[1%len(w.pps)], pp, flap.EpochTime(w.now+10))
		case "update":
			plan.active = true
			_, res.err = eng.UpdateTripsAndBackfill(flap.EpochTime(w.now))
		case "save":
			// change every administrator record in memory first, so that each of Save's puts matters
			eng.UpdateTripsAndBackfill(flap.EpochTime(w.now))
			np := w.params
			np.DailyTotal += 17.5
			eng.Administrator.SetParams(np)
			plan.active = true
			res.err = eng.Administrator.Save()
		case "saveretry":
			// a Save under faults, then a second Save on the healthy store: what the second one reports
			eng.UpdateTripsAndBackfill(flap.EpochTime(w.now))
			np := w.params
			np.DailyTotal += 17.5
			eng.Administrator.SetParams(np)
			plan.active = true
			eng.Administrator.Save()
			plan.active = false
			res.err = eng.Administrator.Save()
		}
	}()
	plan.active = false
	res.trace = plan.trace
	ldb.Release()
	// clean reopen
	l2 := db.NewLevelDB(scratch)
	e2 := flap.NewEngine(l2, 0, scratch)
	s := &engSession{eng: e2}
	res.digest = s.tableDigest()
	res.admin = hashAdmin(e2.Administrator)
	l2.Release()
	os.RemoveAll(scratch)
	return
}

// runUpdateMT runs the daily update with several workers; the fault (if targetW >= 0) is the
// targetI-th store call of worker targetW.  Returns the per-worker traces ordered by worker.
func runUpdateMT(w *c14World, scratch string, targetW, targetI int) (res c14Result, traces [][]string, fired bool) {
	os.RemoveAll(scratch)
	if err := copyTree(w.dir, scratch); err != nil {
		panic(err)
	}
	ldb := db.NewLevelDB(scratch)
	threads := int(w.params.Threads)
	mt := &mtPlan{delta: 16 / threads, workers: map[uint64]*mtWorker{}, targetW: targetW, targetI: targetI, firedCh: make(chan struct{})}
	plan := &faultPlan{mt: mt}
	fdb := &faultDB{ldb, plan}
	eng := flap.NewEngine(fdb, 0, scratch)
	func() {
		defer func() {
			if r := recover(); r != nil {
				res.pan = true
				res.err = fmt.Errorf("panic: %v", r)
			}
		}()
		plan.active = true
		_, res.err = eng.UpdateTripsAndBackfill(flap.EpochTime(w.now))
	}()
	plan.active = false
	fired = mt.fired
	traces = make([][]string, 16/mt.delta)
	for _, wk := range mt.workers {
		if wk.w >= 0 && wk.w < len(traces) {
			traces[wk.w] = wk.trace
		}
	}
	ldb.Release()
	l2 := db.NewLevelDB(scratch)
	e2 := flap.NewEngine(l2, 0, scratch)
	s := &engSession{eng: e2}
	res.digest = s.tableDigest()
	res.admin = hashAdmin(e2.Administrator)
	l2.Release()
	os.RemoveAll(scratch)
	return
}

// c14MT: every single fault position of every worker of a multi-threaded update
func c14MT(o *Out, r *Rng, wd string, wi int, threads int) {
	w := buildWorld(r, filepath.Join(wd, fmt.Sprintf("m%04d", wi)), threads)
	defer os.RemoveAll(w.dir)
	scratch := filepath.Join(wd, fmt.Sprintf("ms%04d", wi))
	base, traces, _ := runUpdateMT(w, scratch, -1, 0)
	if base.err != nil {
		return
	}
	// model shape: per worker, the number of batch puts per prefix
	var ws []string
	offs := make([]int, len(traces))
	pos := 1 // the snapshot
	for wn, tr := range traces {
		offs[wn] = pos
		pos += len(tr)
		var counts []string
		c := -1
		for _, k := range tr {
			switch k {
			case "newiter":
				if c >= 0 {
					counts = append(counts, fmt.Sprintf("%d%%nat", c))
				}
				c = 0
			case "batchput":
				c++
			}
		}
		if c >= 0 {
			counts = append(counts, fmt.Sprintf("%d%%nat", c))
		}
		ws = append(ws, List(counts))
	}
	shape := func(faults []int, ok bool) string {
		var fl []string
		for _, f := range faults {
			fl = append(fl, fmt.Sprintf("%d%%nat", f))
		}
		return fmt.Sprintf("FUpdate %s %s %s", List(ws), List(fl), Bool(ok))
	}
	o.AddCase(shape(nil, true), false, map[string]interface{}{"world": wi, "op": "update", "threads": threads, "faults": []int{}, "traces": traces})
	for wn, tr := range traces {
		for i := range tr {
			if i == 0 && wn > 0 {
				continue // MakeBatch: the workers are interchangeable, tried once
			}
			res, _, fired := runUpdateMT(w, scratch, wn, i)
			if !fired {
				o.Count("mt_fault_not_reached")
				continue
			}
			rep := map[string]interface{}{"world": wi, "op": "update", "threads": threads, "worker": wn, "call": i, "kind": tr[i], "reported_error": fmt.Sprint(res.err)}
			o.AddCase(shape([]int{offs[wn] + i}, res.err == nil), res.err != nil, rep)
			o.Count("fault_update_multithreaded")
			o.Count("fault_kind_" + tr[i])
			if res.pan {
				o.Fail(MonitorFailure{Property: "C14", Signature: "panic-under-storage-fault", What: fmt.Sprintf("update with %d threads panicked with a fault at call %d (%s) of worker %d: %v", threads, i, tr[i], wn, res.err), Replay: rep})
				continue
			}
			if res.err == nil {
				sig := "update-success-reported-although-a-worker-failed"
				o.Fail(MonitorFailure{Property: "C14", Signature: sig, What: fmt.Sprintf("daily update with %d threads returned success although call %d (%s) of worker %d failed and healthy workers reported after it (stored state equals fault-free outcome: %v)", threads, i, tr[i], wn, res.digest == base.digest && res.admin == base.admin), Replay: rep})
			}
		}
	}
}

func runC14(o *Out, rng *Rng, tier string, replay string) {
	nWorlds := 6
	pairs := 25
	if tier == "thorough" {
		nWorlds, pairs = 60, 80
	} else if tier == "search" {
		nWorlds, pairs = 20, 40
	}
	o.sum.Rule = "case = one operation (check-in, Make current and stale, daily update, administrator Save, and a second Save on the healthy store after a faulted one) on a copy of a prepared database image with storage faults injected through a db.Database wrapper at EVERY single call position of its fault-free trace (get, put, snapshot, batch creation, iterator creation, iteration error, batch put, flush) and at sampled pairs of positions; at every write position of the travellers table also a REAL failure (the table is closed underneath so that the wrapped goleveldb call itself fails); in addition multi-threaded daily updates (2, 4, 8, 16 workers) with a fault at every call position of every worker, addressed per worker goroutine, healthy workers held at their final flush until the fault has been injected so that they report after the failing one; the reported result is compared with the model's skeleton under the same schedule, and after a clean reopen the stored state must equal the fault-free outcome whenever success was reported; non-trivial = a fault position at which the operation must (and does) report an error; distinct by (world, operation, positions)"
	wd := filepath.Join(o.dir, "worlds")
	for wi := 0; wi < nWorlds; wi++ {
		r := rng.Fork()
		w := buildWorld(r, filepath.Join(wd, fmt.Sprintf("w%04d", wi)), 1)
		scratch := filepath.Join(wd, fmt.Sprintf("s%04d", wi))
		hasPred := w.params.Promises.Algo&0x0f != 0
		ops := []string{"submit", "update", "save", "saveretry"}
		if hasPred {
			ops = append(ops, "make", "makestale")
		}
		for _, op := range ops {
			base := runOp(w, scratch, op, nil, r)
			if base.err != nil && op != "makestale" {
				continue
			}
			// shape for the model
			var shape string
			var ws []string
			if op == "update" {
				cur := -1
				counts := []int{}
				for _, k := range base.trace {
					switch k {
					case "newiter":
						counts = append(counts, 0)
						cur = len(counts) - 1
					case "batchput":
						if cur >= 0 {
							counts[cur]++
						}
					}
				}
				for _, c := range counts {
					ws = append(ws, fmt.Sprintf("%d%%nat", c))
				}
			}
			mk := func(faults []int, ok bool) string {
				var fl []string
				for _, f := range faults {
					fl = append(fl, fmt.Sprintf("%d%%nat", f))
				}
				switch op {
				case "submit":
					shape = fmt.Sprintf("FSubmit %s %s", List(fl), Bool(ok))
				case "make":
					shape = fmt.Sprintf("FMake %s true %s", List(fl), Bool(ok))
				case "makestale":
					shape = fmt.Sprintf("FMake %s false %s", List(fl), Bool(ok))
				case "save":
					shape = fmt.Sprintf("FSave %s %s %s", List(fl), Bool(hasPred), Bool(ok))
				case "saveretry":
					shape = fmt.Sprintf("FSave [] %s %s", Bool(hasPred), Bool(ok)) // the reported result is that of the second, fault-free Save
				default:
					shape = fmt.Sprintf("FUpdate [%s] %s %s", List(ws), List(fl), Bool(ok))
				}
				return shape
			}
			o.AddCase(mk(nil, base.err == nil), false, map[string]interface{}{"world": wi, "op": op, "faults": []int{}, "trace": base.trace})
			n := len(base.trace)
			try := func(faults []int) {
				fm := map[int]bool{}
				for _, f := range faults {
					fm[f] = true
				}
				res := runOp(w, scratch, op, fm, r)
				rep := map[string]interface{}{"world": wi, "op": op, "faults": faults, "kinds": kindsOf(base.trace, faults), "reported_error": fmt.Sprint(res.err)}
				o.AddCase(mk(faults, res.err == nil), res.err != nil, rep)
				o.Count("fault_" + op)
				for _, f := range faults {
					if f < len(base.trace) {
						o.Count("fault_kind_" + base.trace[f])
					}
				}
				if res.pan {
					o.Fail(MonitorFailure{Property: "C14", Signature: "panic-under-storage-fault", What: fmt.Sprintf("%s panicked with faults at %v (%v): %v", op, faults, kindsOf(base.trace, faults), res.err), Replay: rep})
					return
				}
				if res.err == nil && op != "makestale" && op != "saveretry" && len(faults) > 0 && !allKind(base.trace, faults, "get") && (res.digest == base.digest && res.admin == base.admin) {
					// the stored state happens to equal the fault-free one (e.g. the record re-written was unchanged), but a failed write was still reported as success
					o.Fail(MonitorFailure{Property: "C14", Signature: "failed-store-call-reported-as-success", What: fmt.Sprintf("%s returned success although store call(s) %v (%v) failed", op, faults, kindsOf(base.trace, faults)), Replay: rep})
				}
				if res.err == nil && op != "makestale" && (res.digest != base.digest || (op == "save" || op == "saveretry" || op == "update") && res.admin != base.admin) {
					sig := "success-reported-but-effects-not-stored"
					if op == "saveretry" {
						sig = "save-after-failed-save-reports-success-but-state-not-stored"
					}
					if len(faults) > 0 && allKind(base.trace, faults, "get") {
						sig = "read-fault-treated-as-new-traveller"
					}
					o.Fail(MonitorFailure{Property: "C14", Signature: sig, What: fmt.Sprintf("%s returned success with storage faults at call(s) %v (%v), but after a clean reopen the stored state differs from the fault-free outcome", op, faults, kindsOf(base.trace, faults)), Replay: rep})
				}
			}
			for f := 0; f < n; f++ {
				try([]int{f})
			}
			// real storage failures at every write position of the travellers table (put, flush): the table is
			// closed underneath, the wrapped goleveldb call itself fails; the skeleton says "that call failed"
			if op == "submit" || op == "make" || op == "update" {
				for f := 0; f < n; f++ {
					if base.trace[f] != "put" && base.trace[f] != "flush" {
						continue
					}
					res := runOpClose(w, scratch, op, nil, map[int]bool{f: true}, r)
					rep := map[string]interface{}{"world": wi, "op": op, "table_closed_before_call": f, "kind": base.trace[f], "reported_error": fmt.Sprint(res.err)}
					o.AddCase(mk([]int{f}, res.err == nil), res.err != nil, rep)
					o.Count("real_failure_" + op)
					if res.pan {
						o.Fail(MonitorFailure{Property: "C14", Signature: "panic-under-storage-fault", What: fmt.Sprintf("%s panicked when the travellers table failed for real at call %d (%s): %v", op, f, base.trace[f], res.err), Replay: rep})
					} else if res.err == nil {
						o.Fail(MonitorFailure{Property: "C14", Signature: "real-write-failure-reported-as-success", What: fmt.Sprintf("%s returned success although the store (travellers table closed underneath, goleveldb error) could not perform call %d (%s); stored state equals the fault-free outcome: %v", op, f, base.trace[f], res.digest == base.digest), Replay: rep})
					}
				}
			}
			for k := 0; k < pairs && n >= 2; k++ {
				a, b := r.Intn(n), r.Intn(n)
				if a == b {
					continue
				}
				if a > b {
					a, b = b, a
				}
				try([]int{a, b})
			}
		}
		os.RemoveAll(w.dir)
	}
	nMT := 3
	if tier == "thorough" {
		nMT = 24
	} else if tier == "search" {
		nMT = 8
	}
	for wi := 0; wi < nMT; wi++ {
		c14MT(o, rng.Fork(), wd, wi, []int{2, 4, 16, 8}[wi%4])
	}
	o.FlushCases("C14", "From Coq Require Import List.\nFrom Flap Require Import Model.Faults Run.RunFaults.\nImport ListNotations.",
		"list fcase", "f_mismatches 0%nat", 8)
}

func kindsOf(trace []string, faults []int) []string {
	var ks []string
	for _, f := range faults {
		if f < len(trace) {
			ks = append(ks, trace[f])
		} else {
			ks = append(ks, "?")
		}
	}
	return ks
}
func allKind(trace []string, faults []int, kind string) bool {
	for _, f := range faults {
		if f >= len(trace) || trace[f] != kind {
			return false
		}
	}
	return true
}
