package main

import "path/filepath"

func init() { runners["ENGALL"] = runEngAll }

// ENGALL: every observable compared (development aid and the C12 base stream)
func runEngAll(o *Out, rng *Rng, tier string, replay string) {
	n := engCounts(tier)
	wd := filepath.Join(o.dir, "dbs")
	for c := 0; c < n; c++ {
		r := rng.Fork()
		cfg := engCfg{nTrav: r.Range(1, 6), days: r.Range(8, 30), promises: -1}
		s := genEngine(r, wd, "all", cfg)
		for _, f := range s.fails {
			o.Fail(f)
		}
		engNote(o, s)
		o.AddCase(List(s.coq), true, s.ops)
		s.close()
	}
	engFlush(o, "ENGALL")
}
