package main

import (
	"bytes"
	"fmt"
	"os"
	"path/filepath"
	"sort"
	"strings"

	"github.com/richardmorrey/flap/pkg/db"
	"github.com/syndtr/goleveldb/leveldb"
)

func init() { runners["C16"] = runC16 }

// blob is a db.Serialize carrying raw bytes
type blob struct{ b []byte }

func (x *blob) To(buf *bytes.Buffer) error   { buf.Write(x.b); return nil }
func (x *blob) From(buf *bytes.Buffer) error { x.b = append([]byte(nil), buf.Bytes()...); return nil }

func coqBstr(b []byte) string { return coqBytes(b) }

func dbErrCode(err error) int64 {
	switch {
	case err == nil:
		return 0
	case err == db.ETABLEALREADYEXISTS:
		return 1
	case err == db.ETABLENOTFOUND:
		return 2
	case err == db.EINVALIDTABLENAME:
		return 3
	case err == leveldb.ErrNotFound:
		return 4
	case err == leveldb.ErrClosed || strings.Contains(err.Error(), "closed"):
		return 5
	case err == leveldb.ErrSnapshotReleased:
		return 5
	}
	return 99
}

type dOp map[string]interface{}

func genC16(rng *Rng, workdir string, idx int) (coq []string, ops []dOp, fails []MonitorFailure, stat map[string]int) {
	stat = map[string]int{}
	dir := filepath.Join(workdir, fmt.Sprintf("ldb%05d", idx))
	os.RemoveAll(dir)
	os.MkdirAll(dir, 0o755)
	defer os.RemoveAll(dir)
	d := db.NewLevelDB(dir)
	defer d.Release()
	fail := func(sig, what string) {
		if len(fails) < 4 {
			cp := make([]dOp, len(ops))
			copy(cp, ops)
			fails = append(fails, MonitorFailure{Property: "C16", Signature: sig, What: what, Replay: cp})
		}
	}
	names := [][]string{
		{"alpha", "beta", "g", "t\xc3\xa9"},
		{"songs", "Songs", "SONGS", "song"}, // names that differ only in case are different tables
		{"ab", "aB", "a", "b"},
	}[rng.Intn(3)]
	// oracle: what each table must contain (nil = does not exist)
	oracle := map[string]map[string]string{}
	type hinfo struct {
		t     db.Table
		name  string
		valid bool // the handle refers to the currently open instance
	}
	var handles []*hinfo
	type sinfo struct {
		s     db.Snapshot
		froze map[string]string
	}
	var snaps []*sinfo
	type binfo struct {
		b       db.BatchWrite
		h       *hinfo
		size    int
		pending []func(map[string]string)
		n       int
	}
	var batches []*binfo
	openNow := map[string]*hinfo{}
	shell := map[string]bool{} // empty directory left by a failed OpenTable
	randKey := func() []byte {
		switch rng.Intn(6) {
		case 0:
			return []byte{}
		case 1:
			return []byte{0xff, byte(rng.Intn(256))}
		case 2:
			return []byte{0xff}
		}
		n := rng.Range(1, 3)
		k := make([]byte, n)
		for i := range k {
			k[i] = []byte{0, 1, 'a', 'b', 0xc3, 0xff}[rng.Intn(6)]
		}
		return k
	}
	randVal := func() []byte {
		n := rng.Intn(5)
		v := make([]byte, n)
		for i := range v {
			v[i] = byte(rng.Intn(256))
		}
		return v
	}
	sortedWithPrefix := func(m map[string]string, p []byte) (ks []string) {
		for k := range m {
			if strings.HasPrefix(k, string(p)) {
				ks = append(ks, k)
			}
		}
		sort.Strings(ks)
		return
	}
	kvList := func(m map[string]string, ks []string) string {
		var l []string
		for _, k := range ks {
			l = append(l, fmt.Sprintf("(%s, %s)", coqBstr([]byte(k)), coqBstr([]byte(m[k]))))
		}
		return List(l)
	}
	iterAll := func(it db.Iterator) (ks []string, m map[string]string) {
		m = map[string]string{}
		for it.Next() {
			var x blob
			it.Value(&x)
			k := it.Key()
			ks = append(ks, k)
			m[k] = string(x.b)
		}
		it.Release()
		return
	}
	nops := rng.Range(15, 70)
	for step := 0; step < nops; step++ {
		name := names[rng.Intn(len(names))]
		switch r := rng.Intn(100); {
		case r < 8: // create
			t, err := d.CreateTable(name)
			code := dbErrCode(err)
			slot := len(handles)
			coq = append(coq, fmt.Sprintf("DCreate %s %d %d", coqBstr([]byte(name)), slot, code))
			ops = append(ops, dOp{"op": "create", "name": name, "res": code})
			if (oracle[name] != nil) != (code == 1) {
				fail("create-existing-or-missing-table", fmt.Sprintf("CreateTable(%q) returned %d, table exists=%v", name, code, oracle[name] != nil))
			}
			if err == nil {
				oracle[name] = map[string]string{}
				delete(shell, name)
				h := &hinfo{t, name, true}
				handles = append(handles, h)
				openNow[name] = h
				// a freshly created table is empty and usable
				it, _ := t.NewIterator("")
				if ks, _ := iterAll(it); len(ks) != 0 {
					fail("created-table-not-empty", fmt.Sprintf("table %q created after a drop still holds %d keys", name, len(ks)))
				}
				stat["creates"]++
			}
		case r < 16: // open
			t, err := d.OpenTable(name)
			code := dbErrCode(err)
			slot := len(handles)
			coq = append(coq, fmt.Sprintf("DOpen %s %d %d", coqBstr([]byte(name)), slot, code))
			ops = append(ops, dOp{"op": "open", "name": name, "res": code})
			if code == 2 {
				shell[name] = true
			}
			if (oracle[name] == nil) != (code == 2) {
				fail("open-result-wrong", fmt.Sprintf("OpenTable(%q) returned %d, table exists=%v", name, code, oracle[name] != nil))
			}
			if err == nil {
				h := openNow[name]
				if h == nil {
					h = &hinfo{t, name, true}
					openNow[name] = h
				}
				handles = append(handles, h)
				stat["opens"]++
			}
		case r < 21: // close
			code := dbErrCode(d.CloseTable(name))
			coq = append(coq, fmt.Sprintf("DClose %s %d", coqBstr([]byte(name)), code))
			ops = append(ops, dOp{"op": "close", "name": name, "res": code})
			if code == 0 {
				if h := openNow[name]; h != nil {
					h.valid = false
				}
				delete(openNow, name)
				stat["closes"]++
			}
		case r < 26: // drop
			wasOpen := openNow[name] != nil
			code := dbErrCode(d.DropTable(name))
			coq = append(coq, fmt.Sprintf("DDrop %s %d", coqBstr([]byte(name)), code))
			ops = append(ops, dOp{"op": "drop", "name": name, "res": code})
			if (oracle[name] == nil && !shell[name]) != (code == 2) {
				fail("drop-result-wrong", fmt.Sprintf("DropTable(%q) returned %d, table exists=%v", name, code, oracle[name] != nil))
			}
			if code == 0 {
				oracle[name] = nil
				delete(shell, name)
				if h := openNow[name]; h != nil {
					h.valid = false
				}
				delete(openNow, name)
				if wasOpen {
					stat["drops_while_open"]++
				} else {
					stat["drops_closed"]++
				}
				if _, err := d.OpenTable(name); err != db.ETABLENOTFOUND {
					fail("dropped-table-still-opens", fmt.Sprintf("OpenTable(%q) after a successful drop (open at the time: %v) returned %v", name, wasOpen, err))
				}
				coq = append(coq, fmt.Sprintf("DOpen %s %d 2", coqBstr([]byte(name)), len(handles)))
				shell[name] = true
			}
		case r < 27:
			d.Release()
			coq = append(coq, "DRelease")
			ops = append(ops, dOp{"op": "release"})
			for _, h := range openNow {
				h.valid = false
			}
			openNow = map[string]*hinfo{}
		default:
			if len(handles) == 0 {
				continue
			}
			slot := rng.Intn(len(handles))
			if rng.Chance(3, 4) { // prefer live handles
				for try := 0; try < 4 && !handles[slot].valid; try++ {
					slot = rng.Intn(len(handles))
				}
			}
			h := handles[slot]
			live := h.valid && oracle[h.name] != nil
			switch q := rng.Intn(100); {
			case q < 30: // put
				k, v := randKey(), randVal()
				code := dbErrCode(h.t.Put(string(k), &blob{v}))
				coq = append(coq, fmt.Sprintf("DPut %d %s %s %d", slot, coqBstr(k), coqBstr(v), code))
				ops = append(ops, dOp{"op": "put", "slot": slot, "k": k, "v": v, "res": code})
				if live != (code == 0) {
					fail("put-on-handle", fmt.Sprintf("Put on a %v handle returned %d", live, code))
				}
				if code == 0 && oracle[h.name] != nil {
					oracle[h.name][string(k)] = string(v)
				}
			case q < 38: // delete
				k := randKey()
				code := dbErrCode(h.t.Delete(string(k)))
				coq = append(coq, fmt.Sprintf("DDelete %d %s %d", slot, coqBstr(k), code))
				ops = append(ops, dOp{"op": "delete", "slot": slot, "k": k, "res": code})
				if code == 0 && live {
					delete(oracle[h.name], string(k))
				}
			case q < 60: // get
				k := randKey()
				var x blob
				code := dbErrCode(h.t.Get(string(k), &x))
				coq = append(coq, fmt.Sprintf("DGet %d %s %d %s", slot, coqBstr(k), code, coqBstr(x.b)))
				ops = append(ops, dOp{"op": "get", "slot": slot, "k": k, "res": code})
				if live {
					want, ok := oracle[h.name][string(k)]
					if ok != (code == 0) || (ok && want != string(x.b)) {
						fail("read-differs-from-last-write", fmt.Sprintf("Get(%v) returned %d %v, last written %v (present %v)", k, code, x.b, []byte(want), ok))
					}
				}
			case q < 75: // prefix iteration
				if !live {
					continue
				}
				p := randKey()
				if len(p) > 1 && rng.Bool() {
					p = p[:1]
				}
				it, err := h.t.NewIterator(string(p))
				if err != nil {
					continue
				}
				ks, m := iterAll(it)
				coq = append(coq, fmt.Sprintf("DIter %d %s 0 %s", slot, coqBstr(p), kvList(m, ks)))
				ops = append(ops, dOp{"op": "iter", "slot": slot, "p": p, "n": len(ks)})
				want := sortedWithPrefix(oracle[h.name], p)
				if fmt.Sprint(want) != fmt.Sprint(ks) {
					fail("prefix-iteration-wrong", fmt.Sprintf("prefix %v yields keys %q, expected %q", p, ks, want))
				}
				stat["iterations"]++
			case q < 82: // snapshot
				if !live {
					continue
				}
				sn, err := h.t.TakeSnapshot()
				code := dbErrCode(err)
				coq = append(coq, fmt.Sprintf("DSnap %d %d %d", slot, len(snaps), code))
				ops = append(ops, dOp{"op": "snapshot", "slot": slot, "res": code})
				if err == nil {
					fr := map[string]string{}
					for k, v := range oracle[h.name] {
						fr[k] = v
					}
					snaps = append(snaps, &sinfo{sn, fr})
					stat["snapshots"]++
				}
			case q < 90: // read through a snapshot (only while its table is still open)
				if len(snaps) == 0 {
					continue
				}
				si := rng.Intn(len(snaps))
				sn := snaps[si]
				p := randKey()
				it, err := sn.s.NewIterator(string(p))
				if err != nil {
					continue
				}
				ks, m := iterAll(it)
				if it.Error() != nil {
					continue
				}
				if len(ks) == 0 && len(sortedWithPrefix(sn.froze, p)) != 0 {
					// released underneath (table closed): skip, the model does not track that
					continue
				}
				coq = append(coq, fmt.Sprintf("DSnapIter %d %s 0 %s", si, coqBstr(p), kvList(m, ks)))
				ops = append(ops, dOp{"op": "snapiter", "snap": si, "p": p, "n": len(ks)})
				if fmt.Sprint(sortedWithPrefix(sn.froze, p)) != fmt.Sprint(ks) {
					fail("snapshot-sees-later-writes", fmt.Sprintf("snapshot %d, prefix %v yields %q, contents at creation %q", si, p, ks, sortedWithPrefix(sn.froze, p)))
				}
				stat["snapshot_reads"]++
			default: // a batch: several puts/deletes, then release
				if !live {
					continue
				}
				size := rng.Range(1, 5)
				if rng.Chance(1, 6) {
					size = rng.Range(6, 40)
				}
				bw, err := h.t.MakeBatch(size)
				if err != nil {
					continue
				}
				bslot := len(batches)
				batches = append(batches, &binfo{b: bw, h: h, size: size})
				coq = append(coq, fmt.Sprintf("DBatch %d %d %d", slot, bslot, size))
				ops = append(ops, dOp{"op": "batch", "slot": slot, "size": size})
				cnt := rng.Range(0, 9)
				shadow := map[string]string{}
				for k, v := range oracle[h.name] {
					shadow[k] = v
				}
				for j := 0; j < cnt; j++ {
					k, v := randKey(), randVal()
					if rng.Chance(1, 5) {
						code := dbErrCode(bw.Delete(string(k)))
						coq = append(coq, fmt.Sprintf("DBatchDelete %d %s %d", bslot, coqBstr(k), code))
						delete(shadow, string(k))
					} else {
						code := dbErrCode(bw.Put(string(k), &blob{v}))
						coq = append(coq, fmt.Sprintf("DBatchPut %d %s %s %d", bslot, coqBstr(k), coqBstr(v), code))
						shadow[string(k)] = string(v)
					}
					// what is visible in between is compared with the model only
					if rng.Chance(1, 3) {
						var x blob
						gk := randKey()
						gc := dbErrCode(h.t.Get(string(gk), &x))
						coq = append(coq, fmt.Sprintf("DGet %d %s %d %s", slot, coqBstr(gk), gc, coqBstr(x.b)))
					}
				}
				code := dbErrCode(bw.Release())
				coq = append(coq, fmt.Sprintf("DBatchRelease %d %d", bslot, code))
				ops = append(ops, dOp{"op": "batchrelease", "n": cnt, "res": code})
				oracle[h.name] = shadow
				it, _ := h.t.NewIterator("")
				ks, m := iterAll(it)
				coq = append(coq, fmt.Sprintf("DIter %d [] 0 %s", slot, kvList(m, ks)))
				if fmt.Sprint(sortedWithPrefix(shadow, nil)) != fmt.Sprint(ks) {
					fail("batch-not-fully-applied", fmt.Sprintf("after releasing a batch of size %d with %d operations the table holds %q, expected %q", size, cnt, ks, sortedWithPrefix(shadow, nil)))
				}
				stat["batches"]++
				if cnt > size {
					stat["batches_with_intermediate_flush"]++
				}
			}
		}
	}
	return
}

func runC16(o *Out, rng *Rng, tier string, replay string) {
	n := 220
	if tier == "thorough" {
		n = 3000
	} else if tier == "search" {
		n = 800
	}
	o.sum.Rule = "case = sequence of 15-70 operations on a real LevelDB directory through the wrapper: create/open/close/drop/release of four tables (one non-ASCII name, or names that differ only in case, or short names sharing a prefix), put/get/delete with empty, 0xff and multi-byte keys, prefix iteration (empty, 0xff, partial prefixes), snapshots read after later writes, batches of size 1-40 with 0-9 puts/deletes and reads in between, operations on stale handles; every result compared with the model; Go map oracle as monitor; non-trivial = a table dropped while open plus a snapshot read after a write or a batch that flushed before release; distinct by script hash"
	wd := filepath.Join(o.dir, "ldbs")
	for c := 0; c < n; c++ {
		coq, ops, fails, stat := genC16(rng.Fork(), wd, c)
		for _, f := range fails {
			o.Fail(f)
		}
		for k, v := range stat {
			o.CountN(k, v)
		}
		o.AddCase(List(coq), stat["drops_while_open"] > 0 && (stat["snapshot_reads"] > 0 || stat["batches_with_intermediate_flush"] > 0), ops)
	}
	// a table keeps its contents over close and reopen also when, in between, somebody else's attempt to create a
	// table of that name FAILED: a second LevelDB on the same folder (the first holds the lock), or the same name
	// spelt as a path ("./name") in the same instance
	c16FailedCreates(o, rng.Fork(), filepath.Join(wd, "fc"))
	o.FlushCases("C16", "From Coq Require Import ZArith List.\nFrom Flap Require Import Model.DB Run.RunDB.\nImport ListNotations.\nOpen Scope Z_scope.",
		"list (list dop)", "d_mismatches 0%nat", 16)
}


func c16FailedCreates(o *Out, r *Rng, dir string) {
	for k := 0; k < 6; k++ {
		d := filepath.Join(dir, fmt.Sprintf("d%02d", k))
		os.RemoveAll(d)
		os.MkdirAll(d, 0o755)
		first := db.NewLevelDB(d)
		name := []string{"songs", "t", "Bands"}[k%3]
		other := name + "2"
		want := map[string][]byte{}
		t1, err := first.CreateTable(name)
		t2, err2 := first.CreateTable(other)
		if err != nil || err2 != nil {
			first.Release()
			continue
		}
		for i := 0; i < r.Range(1, 12); i++ {
			key := fmt.Sprintf("k%03d", r.Intn(500))
			v := make([]byte, r.Range(0, 40))
			for j := range v {
				v[j] = byte(r.Intn(256))
			}
			t1.Put(key, &blob{v})
			want[key] = v
		}
		t2.Put("x", &blob{[]byte("y")})
		how := "a second LevelDB on the same folder"
		var createErr error
		if k%2 == 0 {
			second := db.NewLevelDB(d)
			_, createErr = second.CreateTable(name)
			second.Release()
		} else {
			how = "the same name spelt ./" + name + " in the same instance"
			_, createErr = first.CreateTable("./" + name)
		}
		o.Count("failed_creates_of_an_open_table")
		rep := map[string]interface{}{"op": "failed create of an open table", "how": how, "table": name, "keys": len(want)}
		if createErr == nil {
			o.Count("create_of_an_open_table_succeeded") // not what this probe is about
			first.Release()
			continue
		}
		bad := ""
		if err := first.CloseTable(name); err != nil {
			bad = fmt.Sprintf("CloseTable: %v", err)
		} else if re, err := first.OpenTable(name); err != nil {
			bad = fmt.Sprintf("OpenTable after close: %v", err)
		} else {
			for key, v := range want {
				var got blob
				if err := re.Get(key, &got); err != nil || !bytes.Equal(got.b, v) {
					bad = fmt.Sprintf("key %q reads back %v (err %v), written %v", key, got.b, err, v)
					break
				}
			}
		}
		if bad == "" {
			var got blob
			if err := t2.Get("x", &got); err != nil || string(got.b) != "y" {
				bad = fmt.Sprintf("the other table lost its contents: %v %v", got.b, err)
			}
		}
		if bad != "" {
			o.Fail(MonitorFailure{Property: "C16", Signature: "table-lost-after-a-failed-create-of-the-same-name", What: fmt.Sprintf("table %q with %d keys; CreateTable of that name through %s failed (%v) as it should; after close and reopen: %s", name, len(want), how, createErr, bad), Replay: rep})
		}
		first.Release()
		os.RemoveAll(d)
	}
}
