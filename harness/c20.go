package main

import (
	"bytes"
	"encoding/json"
	"fmt"
	"io/ioutil"
	"math"
	"os"
	"os/exec"
	"path/filepath"
	"strconv"
	"strings"
	"time"

	"github.com/richardmorrey/flap/pkg/flap"
	"github.com/richardmorrey/flap/pkg/model"
)

func init() { runners["C20"] = runC20 }

// ---------------------------------------------------------------------------------------------
// (A) the traveller-bot protocol of pkg/model (promisesplanner.go / journeyplanner.go) driven by the
// harness against the real flap.Engine, every call compared with the Coq engine model
// ---------------------------------------------------------------------------------------------

type c20Trip struct {
	outDay, inDay uint64
	from, to      int
	dist          float64
	outDone       bool
	inPlanned     bool
}

const protoRequires = "From Coq Require Import ZArith List.\nFrom Flap Require Import Model.TripHistory Model.Engine Run.RunTH Run.RunEngine Run.RunProtocol Run.RunSim.\nImport ListNotations.\nOpen Scope Z_scope."

func genC20Protocol(rng *Rng, workdir string, stress bool) *engSession {
	return genProtocol(rng, workdir, stress, "C08", -1)
}

// genProtocol: the traveller-bot protocol under a chosen projection; bits >= 0 fixes the option bits
// of the promises algorithm (0x10 correct balances, 0x20 correct daily total, 0x40 correct promise distance)
func genProtocol(rng *Rng, workdir string, stress bool, proj string, bits int) *engSession {
	s := newEngSession(workdir, proj)
	s.maskOverride = 1 | 16
	var p flap.FlapParams
	tripLengths := [][]int{{2, 3, 5}, {2, 2}, {2, 3, 5, 7, 7, 14}, {3}, {2, 9}}[rng.Intn(5)]
	maxLen := 0
	for _, l := range tripLengths {
		if l > maxLen {
			maxLen = l
		}
	}
	p.TripLength = flap.Days(maxLen + rng.Range(0, 20))
	p.FlightsInTrip = uint64(rng.Range(3, 50))
	p.FlightInterval = 1
	p.DailyTotal = flap.Kilometres(500 + 20000*rng.F01())
	p.MinGrounded = uint64(rng.Range(1, 4))
	p.Promises.Algo = flap.PromisesAlgo(1 + rng.Intn(2))
	if rng.Chance(1, 4) {
		p.Promises.Algo |= 0x10
	}
	if rng.Chance(1, 4) {
		p.Promises.Algo |= 0x20
	}
	if bits >= 0 {
		p.Promises.Algo = (p.Promises.Algo & 0x0f) | flap.PromisesAlgo(bits)
	}
	p.Promises.MaxPoints = uint32(rng.Range(3, 20))
	p.Promises.MaxDays = flap.Days(maxLen + rng.Range(2, 40))
	if stress {
		p.Promises.MaxDays = flap.Days(maxLen + rng.Range(60, 120))
	}
	p.Promises.MaxStackSize = flap.StackIndex(rng.Range(1, 4))
	p.Promises.SmoothWindow = flap.Days(rng.Range(0, 5))
	p.Promises.CorrectionSmoothWindow = flap.Days(rng.Range(0, 10))
	p.Promises.Degree = uint32(rng.Range(1, 2))
	p.Threads = 1
	s.setParams(p)
	nTrav := rng.Range(2, 5)
	used := map[string]bool{}
	for i := 0; i < nTrav; i++ {
		s.addTraveller(passportWithPrefix(rng, -1, used))
	}
	flyProb := []int{5, 20, 50, 90}[rng.Intn(4)]
	if stress {
		flyProb = []int{50, 70, 90}[rng.Intn(3)]
	}
	trial := rng.Range(0, 8)
	days := rng.Range(30, 70)
	if stress {
		days = rng.Range(100, 200)
	}
	day := uint64(rng.Range(17500, 19500))
	trips := make([][]*c20Trip, nTrav)
	dtFactor := 1.0 - 0.05*rng.F01()
	for d := 0; d < days; d++ {
		now := day * 86400
		debit := d >= trial
		code, st := s.update(now)
		if code == 0 && !debit && st.Grounded != 0 {
			s.fail("C20", "grounded-during-trial", fmt.Sprintf("daily update on trial day %d credited %d grounded travellers although no balance has been debited", d, st.Grounded))
		}
		// planning: propose + make before anything is planned (promisesPlanner.whenWillWeFly)
		for i := 0; i < nTrav; i++ {
			if !rng.Chance(flyProb, 100) {
				continue
			}
			length := uint64(tripLengths[rng.Intn(len(tripLengths))])
			avail := int(p.Promises.MaxDays) - int(length)
			if avail < 1 {
				continue
			}
			// a start day not covered by a promised trip of this traveller (prepareWeights)
			sd := day + uint64(rng.Intn(avail+1))
			t, ok := s.get(i)
			clash := false
			if ok {
				for _, e := range t.Promises.VerifEntries() {
					if e.TripStart == 0 {
						continue
					}
					ps, pe := uint64(e.TripStart)/86400, uint64(e.TripEnd)/86400
					if sd+length >= ps && sd <= pe {
						clash = true
					}
				}
			}
			if clash {
				continue
			}
			a := rng.Intn(6)
			b := (a + 1 + rng.Intn(5)) % 6
			dist := 150 + 9000*rng.F01()
			sds := sd * 86400
			ede := sds + length*86400
			planned := []flap.VerifFlight{
				{Start: flap.EpochTime(sds), End: flap.EpochTime(sds + 1), From: icaoOf(a), To: icaoOf(b), Distance: flap.Kilometres(dist)},
				{Start: flap.EpochTime(ede + 86398), End: flap.EpochTime(ede + 86399), From: icaoOf(b), To: icaoOf(a), Distance: flap.Kilometres(dist)},
			}
			pc, slot := s.propose(i, planned, 0, now)
			if pc != 0 {
				s.stat["c20_trips_cancelled"]++
				continue
			}
			if s.make(i, slot, now, s.props[slot].VerifVersion()) != 0 {
				continue
			}
			s.stat["c20_promises_made"]++
			trips[i] = append(trips[i], &c20Trip{outDay: sd, inDay: sd + length, from: a, to: b, dist: dist})
		}
		// check-ins of the day (journeyPlanner.submitFlights): outbound on its day, inbound only
		// after an accepted outbound
		for i := 0; i < nTrav; i++ {
			for _, tr := range trips[i] {
				var f flap.VerifFlight
				leg := ""
				dur := uint64(tr.dist / 0.244)
				if dur < 1 {
					dur = 1
				}
				switch {
				case !tr.outDone && tr.outDay == day:
					st := now + uint64(rng.Intn(int(86400-dur-1)))
					if rng.Chance(1, 8) && uint64(p.TripLength) > tr.inDay-tr.outDay {
						// leaves in the very second the promised trip starts (only for trips shorter than the Maximum
						// Trip Duration: a trip of exactly that length that leaves at midnight is the known finding F19,
						// probed separately)
						st = now
						s.stat["c20_boundary_departures"]++
					}
					f = flap.VerifFlight{Start: flap.EpochTime(st), End: flap.EpochTime(st + dur), From: icaoOf(tr.from), To: icaoOf(tr.to), Distance: flap.Kilometres(tr.dist)}
					leg = "outbound"
				case tr.inPlanned && tr.inDay == day:
					st := now + uint64(rng.Intn(int(86400-dur-1)))
					if rng.Chance(1, 8) {
						st = now + 86400 - dur - 1 // lands in the very second the promised trip ends
						s.stat["c20_boundary_landings"]++
					}
					f = flap.VerifFlight{Start: flap.EpochTime(st), End: flap.EpochTime(st + dur), From: icaoOf(tr.to), To: icaoOf(tr.from), Distance: flap.Kilometres(tr.dist)}
					leg = "inbound"
				default:
					continue
				}
				tb, had := s.get(i)
				rc := s.submit(i, []flap.VerifFlight{f}, uint64(f.Start), debit)
				if rc != 0 {
					var bk []string
					if had {
						for _, e := range tb.Promises.VerifEntries() {
							if e.TripStart != 0 {
								bk = append(bk, fmt.Sprintf("[%d..%d clr %d idx %d]", e.TripStart/86400, e.TripEnd/86400, e.Clearance, e.StackIndex))
							}
						}
					}
					s.fail("C20", "promised-traveller-refused", fmt.Sprintf("traveller %d holds a made promise for the trip of days %d..%d, yet the %s check-in on day %d was refused (code %d, debit %v, balance %v, mid-trip %v, kept clearance %d, book %v)", i, tr.outDay, tr.inDay, leg, day, rc, debit, float64(tb.Balance), had && tb.MidTrip(), tb.Kept.Clearance, bk))
					s.stat["c20_refused"]++
				} else {
					s.stat["c20_checkins_accepted"]++
					if !debit {
						ta, _ := s.get(i)
						if float64(ta.Balance) != float64(tb.Balance) && had {
							s.fail("C20", "balance-changed-during-trial", fmt.Sprintf("check-in during the trial period changed the balance from %v to %v", float64(tb.Balance), float64(ta.Balance)))
						}
					}
				}
				if leg == "outbound" {
					tr.outDone = true
					tr.inPlanned = rc == 0
				} else {
					tr.inPlanned = false
				}
			}
		}
		// the simulation adjusts the Daily Total every day after the trial
		if debit && rng.Chance(1, 2) {
			p.DailyTotal = flap.Kilometres(float64(p.DailyTotal) * dtFactor)
			s.setParams(p)
		}
		day++
	}
	s.update(day * 86400)
	return s
}

// ---------------------------------------------------------------------------------------------
// (B) the real simulation: model.NewEngine / Build / Run in a child process on a generated world
// ---------------------------------------------------------------------------------------------

type simSpec struct {
	StartDay    string
	Dir         string
	Cfg         string
	Mode        string // "build+run", "build+run+run", "build+run+build+run"
	Promises    bool
	TrialDays   int
	DaysToRun   int
	ReportDelta int
	Omitted     []string
	Bands       int
	Threads     string
}

func writeSynthWorld(r *Rng, dir string) int {
	os.MkdirAll(dir, 0o755)
	nC := r.Range(2, 5)
	type ap struct {
		id       int
		icao, cc string
		size     string
		lat, lon float64
	}
	var aps []ap
	id := 1
	for c := 0; c < nC; c++ {
		cc := string([]byte{byte('A' + c), byte('A' + c)})
		n := r.Range(1, 6)
		for k := 0; k < n; k++ {
			// well separated coordinates: a lattice cell per airport
			lat := -60 + 120*float64(id%7)/7 + 5*r.F01()
			lon := -170 + 340*float64(id%11)/11 + 8*r.F01() + float64(c)
			aps = append(aps, ap{id, fmt.Sprintf("%c%c%c%c", 'A'+c, 'A'+k, 'A'+id%26, 'A'+(id/26)%26), cc,
				[]string{"small_airport", "medium_airport", "large_airport"}[r.Intn(3)], lat, lon})
			id++
		}
	}
	var dat, csv, rts strings.Builder
	csv.WriteString("\"id\",\"ident\",\"type\",\"name\",\"latitude_deg\",\"longitude_deg\",\"elevation_ft\",\"continent\",\"iso_country\"\n")
	for _, a := range aps {
		fmt.Fprintf(&dat, "%d,\"Name %d\",\"City\",\"Country\",\"X%02d\",\"%s\",%f,%f,100,0,\"E\",\"Europe/London\",\"airport\",\"OurAirports\"\n", a.id, a.id, a.id, a.icao, a.lat, a.lon)
		fmt.Fprintf(&csv, "%d,\"%s\",\"%s\",\"Name\",%f,%f,10,\"EU\",\"%s\"\n", a.id, a.icao, a.size, a.lat, a.lon, a.cc)
	}
	for _, from := range aps {
		n := 0
		for _, to := range aps {
			if from.id != to.id && r.Chance(1, 2) {
				fmt.Fprintf(&rts, "ZZ,1,X%02d,%d,X%02d,%d,,0,320\n", from.id, from.id, to.id, to.id)
				n++
			}
		}
		if n == 0 { // every airport has somewhere to go
			to := aps[(from.id)%len(aps)]
			if to.id == from.id {
				to = aps[(from.id+1)%len(aps)]
			}
			fmt.Fprintf(&rts, "ZZ,1,X%02d,%d,X%02d,%d,,0,320\n", from.id, from.id, to.id, to.id)
		}
	}
	ioutil.WriteFile(filepath.Join(dir, "airports.dat"), []byte(dat.String()), 0o644)
	ioutil.WriteFile(filepath.Join(dir, "airports.csv"), []byte(csv.String()), 0o644)
	ioutil.WriteFile(filepath.Join(dir, "routes.dat"), []byte(rts.String()), 0o644)
	return len(aps)
}

// genSimConfig writes a configuration in which every documented optional setting is present, absent
// or zero at random
func genSimConfig(r *Rng, base string, k int) *simSpec {
	sp := &simSpec{Dir: filepath.Join(base, fmt.Sprintf("sim%04d", k))}
	work := filepath.Join(sp.Dir, "working")
	data := filepath.Join(sp.Dir, "data")
	os.MkdirAll(work, 0o755)
	writeSynthWorld(r, data)
	var y strings.Builder
	opt := func(name string, present string, zero string) {
		switch r.Intn(4) {
		case 0:
			sp.Omitted = append(sp.Omitted, name)
		case 1:
			if zero != "" {
				y.WriteString(zero + "\n")
				sp.Omitted = append(sp.Omitted, name+"=0")
				return
			}
			y.WriteString(present + "\n")
		default:
			y.WriteString(present + "\n")
		}
	}
	tripLengths := [][]int{{2, 3, 5}, {2, 2}, {2, 3, 5, 7, 7, 14}, {3}, {2, 9}}[r.Intn(5)]
	maxLen := 0
	var tls []string
	for _, l := range tripLengths {
		if l > maxLen {
			maxLen = l
		}
		tls = append(tls, fmt.Sprint(l))
	}
	sp.Promises = r.Chance(2, 3)
	y.WriteString("flapparams:\n")
	// any Maximum Flight Interval the parameter setter accepts (at most half the Maximum Trip Duration); mostly 1
	tlv := maxLen + r.Range(2, 60)
	fiv := 1
	if r.Chance(1, 3) && tlv/2 >= 2 {
		fiv = r.Range(2, tlv/2)
		if fiv > 4 {
			fiv = 4
		}
	}
	fmt.Fprintf(&y, "  triplength: %d\n  flightsintrip: %d\n  flightinterval: %d\n", tlv, r.Range(4, 50), fiv)
	if sp.Promises {
		y.WriteString("  promises:\n")
		fmt.Fprintf(&y, "    algo: %d\n    maxpoints: %d\n    maxdays: %d\n    maxstacksize: %d\n", 1+r.Intn(2), r.Range(3, 30), maxLen+r.Range(3, 40), r.Range(1, 4))
		opt("promises.smoothwindow", fmt.Sprintf("    smoothwindow: %d", r.Range(1, 10)), "    smoothwindow: 0")
		y.WriteString("    degree: 1\n")
		opt("promises.correctionsmoothwindow", fmt.Sprintf("    correctionsmoothwindow: %d", r.Range(1, 50)), "    correctionsmoothwindow: 0")
	} else if r.Bool() {
		y.WriteString("  promises:\n    algo: 0\n")
	}
	th := []string{"", "0", "1", "2", "4", "8", "16"}[r.Intn(7)]
	if th != "" {
		fmt.Fprintf(&y, "  threads: %s\n", th)
	} else {
		sp.Omitted = append(sp.Omitted, "flapparams.threads")
	}
	y.WriteString("modelparams:\n")
	opt("loglevel", fmt.Sprintf("  loglevel: %d", r.Intn(4)), "  loglevel: 0")
	fmt.Fprintf(&y, "  workingfolder: %s\n  datafolder: %s\n", work, data)
	opt("dtalgo", "  dtalgo: "+[]string{"average", "max"}[r.Intn(2)], "")
	sp.TrialDays = r.Range(1, 12)
	sp.DaysToRun = sp.TrialDays + r.Range(0, 60)
	if r.Chance(1, 6) { // the whole run inside the trial period
		sp.DaysToRun = r.Range(1, sp.TrialDays)
	}
	switch r.Intn(6) {
	case 0:
		sp.TrialDays = 0
		sp.Omitted = append(sp.Omitted, "trialdays")
	case 1:
		sp.TrialDays = 0
		y.WriteString("  trialdays: 0\n")
		sp.Omitted = append(sp.Omitted, "trialdays=0")
	default:
		fmt.Fprintf(&y, "  trialdays: %d\n", sp.TrialDays)
	}
	fmt.Fprintf(&y, "  daystorun: %d\n  totaltravellers: %d\n", sp.DaysToRun, r.Range(5, 120))
	opt("travellersdailyincrease", fmt.Sprintf("  travellersdailyincrease: %d", r.Range(1, 3)), "  travellersdailyincrease: 0")
	y.WriteString("  botspecs:\n")
	sp.Bands = r.Range(1, 4)
	for b := 0; b < sp.Bands; b++ {
		fmt.Fprintf(&y, "  - flyprobability: %g\n    weight: %d\n", []float64{0.01, 0.05, 0.2, 0.5, 0.9}[r.Intn(5)], r.Range(1, 50))
		if r.Bool() {
			y.WriteString("    monthweights: [200,190,220,200,220,230,240,230,210,220,190,190]\n")
		}
	}
	fmt.Fprintf(&y, "  triplengths: [%s]\n", strings.Join(tls, ","))
	opt("botfreqfactor", fmt.Sprintf("  botfreqfactor: %g", 0.99+0.02*r.F01()), "  botfreqfactor: 0")
	// any start day is allowed: ordinary years, leap years, and the turn of a year divisible by 400 or by 100
	startDay := []string{"2021-01-01", "2021-01-01", "2019-06-15", "2024-02-20", "2023-12-20", "2000-11-20", "2000-12-05", "2099-12-15", "2100-02-20", "1999-12-25"}[r.Intn(10)]
	sp.StartDay = startDay
	y.WriteString("  startday: \"" + startDay + "T00:00:00Z\"\n")
	fmt.Fprintf(&y, "  dailytotalfactor: %g\n", 0.95+0.05*r.F01())
	opt("dailytotaldelta", fmt.Sprintf("  dailytotaldelta: %g", 0.1*r.F01()), "  dailytotaldelta: 0")
	sp.ReportDelta = 1
	switch r.Intn(4) {
	case 0:
		sp.Omitted = append(sp.Omitted, "reportdaydelta")
	case 1:
		y.WriteString("  reportdaydelta: 0\n")
		sp.Omitted = append(sp.Omitted, "reportdaydelta=0")
	default:
		sp.ReportDelta = r.Range(1, 10)
		fmt.Fprintf(&y, "  reportdaydelta: %d\n", sp.ReportDelta)
	}
	opt("verbosereportdaydelta", fmt.Sprintf("  verbosereportdaydelta: %d", r.Range(1, 40)), "  verbosereportdaydelta: 0")
	y.WriteString("  chartwidth: 12.94\n  largechartwidth: 17.19\n")
	opt("deterministic", "  deterministic: true", "  deterministic: false")
	mth := []string{"", "0", "1", "2", "4", "7"}[r.Intn(6)]
	sp.Threads = mth
	if mth != "" {
		fmt.Fprintf(&y, "  threads: %s\n", mth)
	} else {
		sp.Omitted = append(sp.Omitted, "modelparams.threads")
	}
	sp.Cfg = filepath.Join(sp.Dir, "config.yaml")
	ioutil.WriteFile(sp.Cfg, []byte(y.String()), 0o644)
	sp.Mode = []string{"build+run", "build+run+run", "build+run+build+run"}[r.Intn(3)]
	return sp
}

// c20SimChild is the child process: runs the requested phases, exit code 0 on success, 3 on an
// error return, a Go crash exits with 2 and the panic on stderr
func c20SimChild(cfg, mode string) {
	null, _ := os.OpenFile(os.DevNull, os.O_WRONLY, 0)
	os.Stdout = null
	for _, ph := range strings.Split(mode, "+") {
		e, err := model.NewEngine(cfg)
		if err != nil {
			fmt.Fprintln(os.Stderr, "NewEngine:", err)
			os.Exit(3)
		}
		switch ph {
		case "build":
			err = e.Build()
		case "run":
			err = e.Run(false, 0)
		}
		if err != nil {
			fmt.Fprintln(os.Stderr, ph+":", err)
			os.Exit(3)
		}
		if ph == "run" {
			js, _ := e.SummaryStats()
			ioutil.WriteFile(filepath.Join(filepath.Dir(cfg), "summary.json"), []byte(js), 0o644)
		}
		e.Release()
	}
	os.Exit(0)
}

func runSim(o *Out, sp *simSpec, timeout time.Duration) {
	rep := map[string]interface{}{"config": sp.Cfg, "mode": sp.Mode, "omitted_or_zero": sp.Omitted, "promises": sp.Promises, "trialdays": sp.TrialDays, "daystorun": sp.DaysToRun}
	if b, err := ioutil.ReadFile(sp.Cfg); err == nil {
		rep["config_text"] = string(b)
	}
	self, _ := os.Executable()
	cmd := exec.Command(self, "C20SIM", sp.Cfg, sp.Mode)
	var stderr bytes.Buffer
	cmd.Stderr = &stderr
	cmd.Dir = sp.Dir
	done := make(chan error, 1)
	cmd.Start()
	go func() { done <- cmd.Wait() }()
	var err error
	select {
	case err = <-done:
	case <-time.After(timeout):
		cmd.Process.Kill()
		<-done
		o.Fail(MonitorFailure{Property: "C20", Signature: "simulation-does-not-finish", What: fmt.Sprintf("%s on %s did not finish within %v (settings omitted/zero: %v, planning threads %q)", sp.Mode, sp.Cfg, timeout, sp.Omitted, sp.Threads), Replay: rep})
		return
	}
	o.Count("sim_mode_" + sp.Mode)
	for _, om := range sp.Omitted {
		o.Count("sim_omitted_" + om)
	}
	if err != nil {
		msg := stderr.String()
		if len(msg) > 1500 {
			msg = msg[:1500]
		}
		sig := "simulation-returns-error"
		if strings.Contains(msg, "panic:") || strings.Contains(msg, "fatal error") || strings.Contains(msg, "goroutine ") {
			sig = "simulation-crashes"
		}
		o.Fail(MonitorFailure{Property: "C20", Signature: sig, What: fmt.Sprintf("%s with settings omitted/zero %v: %v: %s", sp.Mode, sp.Omitted, err, msg), Replay: rep})
		return
	}
	o.Count("sim_completed")
	// summary rows read back from the model table: nobody grounded during the trial period
	var rows []struct {
		Grounded float64
	}
	if b, e := ioutil.ReadFile(filepath.Join(sp.Dir, "summary.json")); e == nil {
		json.Unmarshal(b, &rows)
	}
	trialRows := sp.TrialDays / sp.ReportDelta
	for d := 0; d < trialRows && d < len(rows); d++ {
		if rows[d].Grounded != 0 {
			o.Fail(MonitorFailure{Property: "C20", Signature: "grounded-during-trial", What: fmt.Sprintf("summary row %d (trial days %d, report every %d) shows %v grounded travellers", d, sp.TrialDays, sp.ReportDelta, rows[d].Grounded), Replay: rep})
			break
		}
	}
	// per-band refused percentages as the run itself reports them
	raw, e := ioutil.ReadFile(filepath.Join(sp.Dir, "working", "bands.csv"))
	if e != nil {
		return
	}
	lines := strings.Split(strings.TrimSpace(string(raw)), "\n")
	flew := false
	for li, line := range lines {
		if li == 0 {
			continue
		}
		f := strings.Split(line, ",")
		for b := 0; 1+3*b+2 < len(f); b++ {
			v, perr := strconv.ParseFloat(f[1+3*b], 64)
			if dist, derr := strconv.ParseFloat(f[1+3*b+2], 64); derr == nil && dist > 0 {
				flew = true
			}
			if perr != nil || math.IsNaN(v) || v == 0 {
				continue
			}
			dayNo, _ := strconv.Atoi(f[0])
			if sp.Promises {
				o.Fail(MonitorFailure{Property: "C20", Signature: "promised-traveller-refused", What: fmt.Sprintf("simulation with promises enabled: %.1f%% of the check-ins of band %d were refused in the report row ending day %d", v, b, dayNo), Replay: rep})
				return
			}
			if dayNo <= sp.TrialDays {
				o.Fail(MonitorFailure{Property: "C20", Signature: "refused-during-trial", What: fmt.Sprintf("%.1f%% of the check-ins of band %d refused in the report row ending day %d, inside the %d trial days", v, b, dayNo, sp.TrialDays), Replay: rep})
				return
			}
		}
	}
	if flew {
		o.Count("sim_with_flights")
	}
	if sp.Promises {
		o.Count("sim_promises_on")
	}
}

func runC20(o *Out, rng *Rng, tier string, replay string) {
	nProto, nStress, nSim := 40, 4, 14
	nReal, nRealStress := 24, 3
	if tier == "thorough" {
		nProto, nStress, nSim = 600, 60, 200
		nReal, nRealStress = 400, 40
	} else if tier == "search" {
		nProto, nStress, nSim = 150, 12, 40
		nReal, nRealStress = 100, 8
	}
	o.sum.Rule = "two streams. (A) case = a history of the traveller-bot protocol of pkg/model driven against the real flap.Engine on LevelDB: 2-5 travellers, every day the update, then promise planning exactly as promisesPlanner does it (propose + make for flights (start of day, +1 s) and (end day + 86398 s, + 86399 s), same distance both ways, no overlap with promised trips), then the day's check-ins at the flight's start time (outbound on its day, inbound only after an accepted outbound), debit only after 0-8 trial days, Daily Total decaying, linear and polynomial predictors with correction options, fly probability 5-90 % (stress histories: 100-200 days, 50-90 %, horizon up to 120 days so that ten-promise books are the norm); every call and result compared with the Coq engine model (kept promise, book, mid-trip, grounded count, share); monitors: no check-in of a promised trip refused, nobody credited and no balance changed in the trial. (B) the real model.NewEngine / Build / Run in a child process on a generated world (2-5 countries, 2-30 airports, random routes) with every documented optional setting present, absent or zero at random, backfill threads 0-16, planning threads absent/0/1/2/4/7, fresh folder, second run and second build+run on the same folder, under a timeout; monitors: exit status, crash, time-out, zero grounded in the trial rows of the summary read back from the model table, zero refused percentages in bands.csv with promises on (and within the trial otherwise). non-trivial (A) = promises were made and used; distinct by script hash"
	wd := filepath.Join(o.dir, "dbs")
	for c := 0; c < nProto+nStress; c++ {
		s := genC20Protocol(rng.Fork(), wd, c >= nProto)
		for _, f := range s.fails {
			if f.Property == "C20" {
				o.Fail(f)
			}
		}
		for _, k := range []string{"c20_promises_made", "c20_checkins_accepted", "c20_refused", "c20_trips_cancelled", "c20_boundary_departures", "c20_boundary_landings"} {
			o.CountN(k, s.stat[k])
		}
		o.AddCase(List(s.coq), s.stat["c20_promises_made"] > 3 && s.stat["c20_checkins_accepted"] > 3, s.ops)
		s.close()
	}
	// known finding F19, probed on every run with the real planner code
	for _, f := range probeMidnightMaxLength(rng.Fork(), wd) {
		o.Fail(f)
	}
	o.Count("probe_midnight_departure_maximum_length_trip")
	// (A') the same protocol run by the real planner code of pkg/model
	for c := 0; c < nReal+nRealStress; c++ {
		s := genBotReal(rng.Fork(), wd, c >= nReal)
		for _, f := range s.fails {
			if f.Property == "C20" {
				o.Fail(f)
			}
		}
		for _, k := range []string{"c20_promises_made", "c20_checkins_accepted", "c20_refused", "c20_trips_cancelled", "c20_real_prepare"} {
			o.CountN("real_"+k, s.stat[k])
		}
		o.AddCase(List(s.coq), s.stat["c20_promises_made"] > 3 && s.stat["c20_checkins_accepted"] > 3, s.ops)
		s.close()
	}
	// replayed by Run/RunProtocol.v: results compared with the model AND every operation decided against
	// the discipline of the whole-history theorem (per traveller, on the model's state before it)
	shards := 16
	if tier == "thorough" {
		shards = 48 // stress histories of 100-200 days take seconds each to replay: keep every file well below the evaluation time limit
	}
	o.FlushCases("C20", protoRequires, "list (list eop)", "eps_mismatches 0%nat", shards)
	o.sum.Notes = append(o.sum.Notes, "every operation of every protocol history is decided inside Coq against the discipline of C20_engine_history_every_checkin_accepted (conformsb on the model's state before the operation, one clock per traveller); an empty mismatch list means every generated history is conforming, i.e. the whole-history theorem applies to each of them (the discipline is fully decidable: the clause about the predictor is 'every accepted proposal has positive clearance dates', checked on the model's proposal)")
	simBase := filepath.Join(o.dir, "sims")
	type job struct{ sp *simSpec }
	var specs []*simSpec
	for k := 0; k < nSim; k++ {
		specs = append(specs, genSimConfig(rng.Fork(), simBase, k))
	}
	// run the child processes eight at a time
	sem := make(chan struct{}, 8)
	doneCh := make(chan struct{}, len(specs))
	subOuts := make([]*Out, len(specs))
	for k, sp := range specs {
		subOuts[k] = &Out{counter: map[string]int{}}
		sem <- struct{}{}
		go func(k int, sp *simSpec) {
			runSim(subOuts[k], sp, 120*time.Second)
			<-sem
			doneCh <- struct{}{}
		}(k, sp)
	}
	for range specs {
		<-doneCh
	}
	for k, so := range subOuts {
		for key, v := range so.counter {
			o.CountN(key, v)
		}
		for _, f := range so.sum.Failures {
			o.Fail(f)
		}
		if len(so.sum.Failures) == 0 || os.Getenv("VERIF_KEEP_SIMS") == "" {
			os.RemoveAll(specs[k].Dir)
		}
	}
	// (C) the order of a simulated day observed on the real Engine.Run: the simulation's database is recorded and the
	// engine calls of every modelDay are reconstructed from the writes to the travellers table (c20trace.go)
	nTrace := 8
	if tier == "thorough" {
		nTrace = 60
	} else if tier == "search" {
		nTrace = 20
	}
	traceBase := filepath.Join(o.dir, "traces")
	for k := 0; k < nTrace; k++ {
		sp := genSimConfig(rng.Fork(), traceBase, k)
		runTrace(o, sp, 120*time.Second)
		os.RemoveAll(sp.Dir)
	}
}
