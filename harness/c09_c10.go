package main

import (
	"errors"
	"fmt"
	"path/filepath"

	"github.com/richardmorrey/flap/pkg/flap"
)

func init() {
	runners["C09"] = runC09
	runners["C10"] = runC10
}

// scripted predictor (mirrors Run/RunPromises.v pred_of)
type sPred struct {
	Mode    int     `json:"mode"`
	Off     int64   `json:"off"`
	Rate    float64 `json:"rate"`
	BfErr   bool    `json:"bferr"`
	Ver     uint64  `json:"ver"`
}

var errScripted = errors.New("scripted predictor error")

func (p sPred) Predict(d flap.Kilometres, sd int64) (int64, error) {
	switch p.Mode {
	case 1:
		return 0, errScripted
	case 2:
		return sd + int64(float64(d)/p.Rate), nil
	}
	return sd + p.Off, nil
}
func (p sPred) Backfilled(a, b int64) (flap.Kilometres, error) {
	if p.BfErr {
		return 0, errScripted
	}
	return flap.Kilometres(p.Rate * float64(b-a)), nil
}
func (p sPred) Version() uint64 { return p.Ver }
func (p sPred) coq() string {
	return fmt.Sprintf("(mkSP %d %s %d %s %d)", p.Mode, Z(p.Off), fbits(p.Rate), Bool(p.BfErr), p.Ver)
}

type pOp map[string]interface{}

func promiseCore(p flap.Promise) string {
	return fmt.Sprintf("%d/%d/%d/%d", p.TripStart, p.TripEnd, fbits(float64(p.Distance)), fbits(float64(p.Travelled)))
}

// bookMonitor states C09 on a real book that was just produced by an accepted proposal
func bookMonitor(before, after []flap.Promise, now uint64, maxStack int8, fail func(sig, what string)) (stacked int) {
	n := 0
	for n < len(after) && after[n].TripStart != 0 {
		n++
	}
	for i := n; i < len(after); i++ {
		if after[i].TripStart != 0 {
			fail("book-has-gap", fmt.Sprintf("slot %d is used after an empty slot", i))
		}
	}
	for i := 0; i+1 < n; i++ {
		newer, older := after[i], after[i+1]
		if !(older.TripStart < newer.TripStart) {
			fail("book-not-ordered-by-trip-start", fmt.Sprintf("slot %d starts %d, older slot %d starts %d", i, newer.TripStart, i+1, older.TripStart))
		}
		if !(older.TripEnd < newer.TripStart) {
			fail("promised-trips-overlap", fmt.Sprintf("trip in slot %d ends %d, next trip (slot %d) starts %d", i+1, older.TripEnd, i, newer.TripStart))
		}
		if older.Clearance > newer.TripStart {
			fail("clearance-after-next-trip-start", fmt.Sprintf("promise in slot %d clears at %d but the next promised trip (slot %d) starts %d", i+1, older.Clearance, i, newer.TripStart))
		}
	}
	for i := 0; i < n; i++ {
		if after[i].StackIndex < 0 || after[i].StackIndex > flap.StackIndex(maxStack) {
			fail("stack-index-beyond-maximum", fmt.Sprintf("slot %d has stack index %d, maximum %d", i, after[i].StackIndex, maxStack))
		}
		if after[i].StackIndex != 0 {
			stacked++
		}
	}
	// previously made promises unchanged; only the oldest, whose trip has ended, may be dropped
	have := map[string]bool{}
	for i := 0; i < n; i++ {
		have[promiseCore(after[i])] = true
	}
	for i, p := range before {
		if p.TripStart == 0 {
			continue
		}
		if !have[promiseCore(p)] {
			if i == len(before)-1 && uint64(p.TripEnd) < now {
				continue
			}
			fail("previous-promise-changed-or-dropped", fmt.Sprintf("promise in slot %d (trip %d..%d, distance %v) is not in the new book; now=%d", i, p.TripStart, p.TripEnd, float64(p.Distance), now))
		}
	}
	return
}

func genC09(rng *Rng) (coq []string, ops []pOp, fails []MonitorFailure, stat map[string]int) {
	stat = map[string]int{}
	var book flap.Promises
	var last *flap.Proposal
	day := uint64(rng.Range(17500, 19500))
	now := day * 86400
	maxStack := int8(rng.Range(1, 4))
	fail := func(sig, what string) {
		if len(fails) < 4 {
			cp := make([]pOp, len(ops))
			copy(cp, ops)
			fails = append(fails, MonitorFailure{Property: "C09", Signature: sig, What: what, Replay: cp})
		}
	}
	pickPred := func() sPred {
		p := sPred{Mode: rng.Intn(3), Off: int64(rng.Range(-3, 60)), Rate: 5 + 900*rng.F01(), BfErr: rng.Chance(1, 6), Ver: uint64(rng.Range(1, 3))}
		if rng.Chance(1, 2) {
			p.Mode = 0
			p.Off = int64(rng.Range(0, 25)) // late clearances force stacking
		}
		return p
	}
	n := rng.Range(8, 40)
	if rng.Chance(1, 3) {
		n = rng.Range(40, 90)
	}
	for k := 0; k < n; k++ {
		// position: before, between, after existing promises; sometimes overlapping
		es := book.VerifEntries()
		lead := uint64(rng.Range(0, 45))
		sd := day + lead
		length := uint64(rng.Range(0, 3))
		for try := 0; try < 6; try++ { // mostly avoid trips that overlap a promised one
			clash := false
			for _, e := range es {
				if e.TripStart != 0 && uint64(e.TripStart)/86400 <= sd+length && sd <= uint64(e.TripEnd)/86400 {
					clash = true
				}
			}
			if !clash || rng.Chance(1, 6) {
				break
			}
			sd = day + uint64(rng.Range(0, 45))
		}
		ts := sd*86400 + uint64(rng.Intn(86400))
		te := (sd+length)*86400 + uint64(rng.Range(1, 86399))
		if te <= ts {
			te = ts + uint64(rng.Range(1, 5000))
		}
		if rng.Chance(1, 10) && es[0].TripStart != 0 {
			ts = uint64(es[0].TripStart) + uint64(rng.Range(-90000, 90000)) // near the newest promise
			te = ts + uint64(rng.Range(1, 200000))
		}
		if rng.Chance(1, 25) {
			te = ts - uint64(rng.Intn(2)) // bad interval
		}
		if rng.Chance(1, 25) {
			ts = now - uint64(rng.Range(1, 5000)) // in the past
		}
		dist := 100 + 9000*rng.F01()
		if rng.Chance(1, 25) {
			dist = 0
		}
		trav := dist - 50*rng.F01()
		sp := pickPred()
		before := es
		pp, err := book.VerifPropose(flap.EpochTime(ts), flap.EpochTime(te), flap.Kilometres(dist), flap.Kilometres(trav), flap.EpochTime(now), sp, maxStack)
		code := engErrCode(err)
		h := uint64(0)
		if err == nil {
			h = hashProposal(pp)
		}
		coq = append(coq, fmt.Sprintf("PPropose %d %d %d %d %d %s %d %d %d", ts, te, fbits(dist), fbits(trav), now, sp.coq(), maxStack, code, h))
		ops = append(ops, pOp{"op": "propose", "ts": ts, "te": te, "dist": dist, "trav": trav, "now": now, "pred": sp, "maxStack": maxStack, "res": code})
		stat[fmt.Sprintf("propose_res_%d", code)]++
		if err == nil {
			last = pp
			st := bookMonitor(before, pp.VerifEntries(), now, maxStack, fail)
			if st > 0 {
				stat["accepted_with_stacking"]++
			}
			if st >= 2 {
				stat["accepted_with_chain_of_2_or_more"]++
			}
			// position of the new promise
			ents := pp.VerifEntries()
			pos := 0
			for pos < 10 && uint64(ents[pos].TripStart) != ts {
				pos++
			}
			cnt := 0
			for cnt < 10 && ents[cnt].TripStart != 0 {
				cnt++
			}
			switch {
			case pos == 0 && cnt > 1:
				stat["inserted_newest"]++
			case pos == cnt-1 && cnt > 1:
				stat["inserted_oldest"]++
			case cnt > 2:
				stat["inserted_between"]++
			}
			if before[9].TripStart != 0 {
				stat["oldest_dropped"]++
			}
			// make it (sometimes with another version)
			mp := sp
			if rng.Chance(1, 8) {
				mp.Ver++
			}
			if rng.Chance(9, 10) {
				merr := book.VerifMake(last, mp)
				mcode := engErrCode(merr)
				coq = append(coq, fmt.Sprintf("PMake %s %d", mp.coq(), mcode))
				ops = append(ops, pOp{"op": "make", "pred": mp, "res": mcode})
				coq = append(coq, fmt.Sprintf("PCheckBook %d", hashBook(7, book.VerifEntries())))
			}
		}
		// time passes
		if rng.Chance(1, 2) {
			day += uint64(rng.Range(1, 8))
			now = day * 86400
		}
	}
	coq = append(coq, fmt.Sprintf("PCheckBook %d", hashBook(7, book.VerifEntries())))
	return
}

func runC09(o *Out, rng *Rng, tier string, replay string) {
	n := 400
	if tier == "thorough" {
		n = 6000
	} else if tier == "search" {
		n = 1500
	}
	o.sum.Rule = "case = sequence of 8-40 Promises.propose / make calls on one real promise book with scripted predictors (fixed offset, always failing, distance/rate; failing backfill; changing versions) and maximum chain lengths 1-4; trips placed before, between and after existing promises, overlapping, in the past, with bad intervals; every proposal's result code and full hash (all 10 slots, all fields) compared with the model; Go monitor states the C09 invariant and the preservation of older promises on every accepted proposal; non-trivial = an accepted proposal that stacked at least one older promise, an insertion between two promises, and a full book dropping its oldest; distinct by script hash"
	for c := 0; c < n; c++ {
		coq, ops, fails, stat := genC09(rng.Fork())
		for _, f := range fails {
			o.Fail(f)
		}
		for k, v := range stat {
			o.CountN(k, v)
		}
		o.AddCase(List(coq), stat["accepted_with_stacking"] > 0 && stat["inserted_between"] > 0 && stat["oldest_dropped"] > 0, ops)
	}
	o.FlushCases("C09", "From Coq Require Import ZArith List.\nFrom Flap Require Import Run.RunPromises.\nImport ListNotations.\nOpen Scope Z_scope.",
		"list (list pop)", "p_mismatches 0%nat", 16)
	// the same clauses through Engine.Propose / Engine.Make and the travellers table: several travellers
	// whose records share a table iterator, daily updates between the proposals
	ne := 12
	if tier == "thorough" {
		ne = 120
	} else if tier == "search" {
		ne = 40
	}
	wd := filepath.Join(o.dir, "dbs")
	for c := 0; c < ne; c++ {
		r := rng.Fork()
		var s *engSession
		if c%3 == 2 {
			s = genProtocol(r, wd, false, "C09", -1)
		} else {
			s = genEngine(r, wd, "C09", engCfg{nTrav: r.Range(2, 8), days: r.Range(8, 30), promises: 1 + r.Intn(2), samePrefix: true, faults: c%2 == 0})
		}
		keepFails(o, s, "C09")
		o.CountN("engine_proposals", s.stat["proposals"])
		o.CountN("proposals_with_storage_fault", s.stat["proposals_with_storage_fault"])
		o.CountN("engine_makes_ok", s.stat["makes_ok"])
		o.AddCase(List(s.coq), s.stat["makes_ok"] > 1, s.ops)
		s.close()
	}
	engFlush(o, "C09E")
}

func runC10(o *Out, rng *Rng, tier string, replay string) {
	n := engCounts(tier)
	o.sum.Rule = "case = engine history with promises on (linear and polynomial predictor, all option bits): proposals for travellers with and without a record, made at once, made after 1..k updates (stale), replayed later; compared under the C10 projection (result codes of every Propose/Make, hash of every proposal, the promise book after every Make, the administrator state after every update); Go monitor digests all tables and the administrator state before and after every real Propose and checks the currentness rule of Make against the predictor version; non-trivial = a stale and a current Make and a refused proposal; distinct by script hash"
	wd := filepath.Join(o.dir, "dbs")
	for c := 0; c < n; c++ {
		r := rng.Fork()
		cfg := engCfg{nTrav: r.Range(1, 5), days: r.Range(8, 30), promises: 1 + r.Intn(2)}
		var s *engSession
		if c%5 == 3 {
			// proposals made while the promise correction holds accumulated values (kept promises used in debt)
			bits := []int{0x40, 0x60, 0x50, 0x20}[(c/5)%4]
			s = genProtocol(r, wd, false, "C10", bits)
			o.Count(fmt.Sprintf("protocol_history_option_bits_%#x", bits))
		} else if c%5 == 1 {
			s = genC10Delayed(r, wd)
		} else if c%5 == 2 && c%2 == 0 {
			s = genC10FullBook(r, wd)
			o.CountN("full_book_requests_while_oldest_trip_in_progress", s.stat["c10_fullbook_requests"])
		} else {
			cfg.faults = c%2 == 0
			s = genEngine(r, wd, "C10", cfg)
		}
		o.CountN("proposals_with_storage_fault", s.stat["proposals_with_storage_fault"])
		o.CountN("make_ok_after_updates_changed_the_record", s.stat["c10_delayed_make_ok"])
		keepFails(o, s, "C10")
		engNote(o, s)
		refused := 0
		for k, v := range s.stat {
			if len(k) > 12 && k[:12] == "propose_res_" && k != "propose_res_0" {
				refused += v
			}
		}
		o.AddCase(List(s.coq), s.stat["makes_stale"] > 0 && s.stat["makes_ok"] > 0 && refused > 0, s.ops)
		s.close()
	}
	engFlush(o, "C10")
}

// genC10Delayed: proposals that are made only after one or more daily updates have changed the
// traveller's record (credits, trip markers, a kept promise) while the prediction model may or may
// not have moved: with an unchanged model Make must succeed and change nothing but the promises.
func genC10Delayed(rng *Rng, workdir string) *engSession {
	s := newEngSession(workdir, "all")
	var p flap.FlapParams
	p.TripLength, p.FlightsInTrip, p.FlightInterval = flap.Days(rng.Range(4, 30)), uint64(rng.Range(3, 20)), 1
	p.DailyTotal = flap.Kilometres(100 * float64(rng.Range(1, 50)))
	p.MinGrounded = uint64(rng.Range(0, 2))
	p.Promises.Algo = flap.PromisesAlgo(1 + rng.Intn(2))
	p.Promises.MaxPoints = uint32(rng.Range(3, 12))
	p.Promises.MaxDays = flap.Days(rng.Range(20, 60))
	p.Promises.MaxStackSize = flap.StackIndex(rng.Range(1, 3))
	p.Promises.SmoothWindow = flap.Days(rng.Range(0, 3))
	p.Promises.Degree = 1
	p.Threads = 1
	s.setParams(p)
	used := map[string]bool{}
	nTrav := rng.Range(1, 3)
	for i := 0; i < nTrav; i++ {
		s.addTraveller(passportWithPrefix(rng, -1, used))
	}
	day := uint64(rng.Range(17500, 19500))
	// some days of constant share first in half of the sessions, so that the fitted line is flat and stays put
	warm := 0
	if rng.Bool() {
		warm = rng.Range(2, 6)
	}
	for d := 0; d < warm; d++ {
		s.update(day * 86400)
		day++
	}
	type pend struct {
		i, slot int
		ver     uint64
		age     int
	}
	var waiting []pend
	for d := 0; d < rng.Range(6, 14); d++ {
		now := day * 86400
		s.update(now)
		for k := range waiting {
			waiting[k].age++
		}
		// make what has waited long enough
		var rest []pend
		for _, w := range waiting {
			if w.age >= 1 && rng.Chance(2, 3) {
				before, had := s.get(w.i)
				rc := s.make(w.i, w.slot, now+100, w.ver)
				if rc == 0 && had {
					_ = before
					s.stat["c10_delayed_make_ok"]++
				}
			} else {
				rest = append(rest, w)
			}
		}
		waiting = rest
		for i := 0; i < nTrav; i++ {
			// a debiting flight now and then keeps the record changing under the daily update
			if rng.Chance(1, 2) {
				st := now + uint64(rng.Range(100, 80000))
				f := flap.VerifFlight{Start: flap.EpochTime(st), End: flap.EpochTime(st + 3000), From: icaoOf(rng.Intn(4)), To: icaoOf(4 + rng.Intn(3)), Distance: flap.Kilometres(50 + 2000*rng.F01())}
				s.submit(i, []flap.VerifFlight{f}, st, true)
			}
			if rng.Chance(1, 2) {
				sd := day + uint64(rng.Range(2, 15))
				l := uint64(rng.Range(1, 3))
				fs := []flap.VerifFlight{
					{Start: flap.EpochTime(sd * 86400), End: flap.EpochTime(sd*86400 + 1), From: icaoOf(1), To: icaoOf(2), Distance: 700},
					{Start: flap.EpochTime((sd+l)*86400 + 86398), End: flap.EpochTime((sd+l)*86400 + 86399), From: icaoOf(2), To: icaoOf(1), Distance: 700},
				}
				code, slot := s.propose(i, fs, 0, now+200)
				if code == 0 {
					waiting = append(waiting, pend{i, slot, s.props[slot].VerifVersion(), 0})
				}
			}
		}
		day++
	}
	return s
}

// genC10FullBook: a full book whose oldest promise was brought forward to let a trip start on the day
// its own trip ends (so its clearance date lies before its trip end); proposals are then requested at
// moments before and after that clearance date and before and after the end of the oldest trip.
func genC10FullBook(rng *Rng, workdir string) *engSession {
	s := newEngSession(workdir, "C10")
	var p flap.FlapParams
	p.TripLength, p.FlightsInTrip, p.FlightInterval = 20, 10, 1
	p.DailyTotal = flap.Kilometres(40000 + 20000*rng.F01())
	p.MinGrounded = 1
	p.Promises.Algo = flap.PromisesAlgo(1 + rng.Intn(2))
	p.Promises.MaxPoints = uint32(rng.Range(4, 10))
	p.Promises.MaxDays = 150
	p.Promises.MaxStackSize = flap.StackIndex(rng.Range(1, 3))
	p.Promises.SmoothWindow = 1
	p.Promises.Degree = 1
	p.Threads = 1
	s.setParams(p)
	used := map[string]bool{}
	s.addTraveller(passportWithPrefix(rng, -1, used))
	day := uint64(rng.Range(17500, 19500))
	for k := 0; k < rng.Range(3, 6); k++ {
		s.update(day * 86400)
		day++
	}
	s.update(day * 86400)
	now := day*86400 + 100
	trip := func(d1 uint64, s1 uint64, d2 uint64, s2 uint64) []flap.VerifFlight {
		return []flap.VerifFlight{
			{Start: flap.EpochTime(d1*86400 + s1), End: flap.EpochTime(d1*86400 + s1 + 3000), From: icaoOf(1), To: icaoOf(2), Distance: flap.Kilometres(300 + 400*rng.F01())},
			{Start: flap.EpochTime(d2*86400 + s2 - 3000), End: flap.EpochTime(d2*86400 + s2), From: icaoOf(2), To: icaoOf(1), Distance: flap.Kilometres(300 + 400*rng.F01())},
		}
	}
	plan := func(fs []flap.VerifFlight, at uint64) bool {
		code, slot := s.propose(0, fs, 0, at)
		return code == 0 && s.make(0, slot, at+1, s.props[slot].VerifVersion()) == 0
	}
	endA := uint64(rng.Range(30000, 50000))
	okA := plan(trip(day+1, 1000, day+2, endA), now)                                  // A ends on day+2 ...
	okB := plan(trip(day+2, endA+uint64(rng.Range(5000, 20000)), day+3, 70000), now+10) // ... B starts later that day
	made := 0
	for k := 0; k < 8; k++ {
		d := day + 8 + uint64(6*k)
		if plan(trip(d, 2000, d+1, 60000), now+uint64(20+10*k)) {
			made++
		}
	}
	if !(okA && okB && made == 8) {
		return s
	}
	// requests on the day the oldest trip ends: after its (brought forward) clearance date, before / after its end
	for _, at := range []uint64{(day+2)*86400 + 5, (day+2)*86400 + endA - 10, (day+2)*86400 + endA, (day+2)*86400 + endA + 1, (day+3)*86400 + 10} {
		d := day + 90 + uint64(rng.Range(0, 20))
		s.propose(0, trip(d, 3000, d+1, 50000), 0, at)
		s.stat["c10_fullbook_requests"]++
	}
	return s
}
