package main

import (
	"fmt"
	"math/rand"
	"os"
	"path/filepath"
	"sort"
	"strings"

	"github.com/richardmorrey/flap/pkg/db"
	"github.com/richardmorrey/flap/pkg/flap"
	"github.com/richardmorrey/flap/pkg/model"
)

func ZList(l []int64) string {
	var s []string
	for _, x := range l {
		s = append(s, Z(x))
	}
	return "[" + strings.Join(s, "; ") + "]"
}

// C19: weighted choice.  Script = building operations + queries with observed answers.

func init() { runners["C19"] = runC19 }

type c19op struct {
	Kind string  `json:"k"`
	A    int64   `json:"a,omitempty"`
	B    int64   `json:"b,omitempty"`
	Obs  []int64 `json:"obs,omitempty"`
}

func pickWeight(r *Rng) int64 {
	switch r.Intn(10) {
	case 0, 1:
		return 0
	case 2, 3, 4:
		return 1
	case 5, 6:
		return int64(r.Range(2, 9))
	case 7:
		return int64(r.Range(10, 200))
	case 8:
		return int64(r.Range(1000, 100000))
	default:
		return r.I64n(1 << 40)
	}
}

// drawSeeds finds, for a total tw, a math/rand seed producing each draw r in [0,tw) (small tw),
// or a sample of seeds (large tw).  Returns map r -> seed.
func drawSeeds(tw int64, rng *Rng, exhaustive bool, samples int) map[int64]int64 {
	res := map[int64]int64{}
	if exhaustive {
		for s := int64(1); int64(len(res)) < tw && s < tw*400+1000; s++ {
			rand.Seed(s)
			r := rand.Int63n(tw)
			if _, ok := res[r]; !ok {
				res[r] = s
			}
		}
		return res
	}
	for i := 0; i < samples; i++ {
		s := int64(rng.U64() >> 2)
		rand.Seed(s)
		res[rand.Int63n(tw)] = s
	}
	return res
}

func runC19(o *Out, rng *Rng, tier string, replay string) {
	ncases := 250
	if tier == "thorough" || tier == "search" {
		ncases = 4000
	}
	o.sum.Rule = "case = random building sequence (add / addIndexWeight / addMultiple / reset) over weights in {0,1,small,large} followed by find() at every cumulative boundary +-1 and choose() under every possible draw (total <= 96, draw learnt by re-seeding math/rand) or 24 sampled draws; non-trivial = at least 2 entries, a zero or unit weight present and at least one choose observed; distinct by hash of the operation list"
	caseNo := 0
	for c := 0; c < ncases; c++ {
		var ops []c19op
		var coq []string
		var v model.VerifWeights
		var plain []int64 // weights when built by plain add only (index = position)
		isPlain := true
		n := rng.Intn(9)
		if rng.Chance(1, 10) {
			n = rng.Range(20, 60)
		}
		for i := 0; i < n; i++ {
			w := pickWeight(rng)
			switch k := rng.Intn(12); {
			case k < 8:
				v.Add(w)
				plain = append(plain, w)
				ops = append(ops, c19op{Kind: "add", A: w})
				coq = append(coq, "WAdd "+Z(w))
			case k < 10:
				idx := int64(rng.Range(-3, 40))
				v.AddIndexWeight(int(idx), w)
				isPlain = false
				ops = append(ops, c19op{Kind: "addidx", A: idx, B: w})
				coq = append(coq, "WAddIdx "+Z(idx)+" "+Z(w))
			case k < 11:
				m := int64(rng.Range(-1, 4))
				v.AddMultiple(w, int(m))
				for j := int64(0); j < m; j++ {
					plain = append(plain, w)
				}
				ops = append(ops, c19op{Kind: "addmul", A: w, B: m})
				coq = append(coq, "WAddMul "+Z(w)+" "+Z(m))
			default:
				if rng.Chance(1, 3) {
					v.Reset()
					plain = nil
					isPlain = true
					ops = append(ops, c19op{Kind: "reset"})
					coq = append(coq, "WReset")
				}
			}
		}
		// observe the scale
		sc := v.Scale()
		var scs []string
		for _, e := range sc {
			scs = append(scs, "("+Z(e[0])+", "+Z(e[1])+")")
		}
		coq = append(coq, "WScale "+List(scs))
		// top
		tw, terr := v.TopWeight()
		coq = append(coq, "WTop "+OptZ(terr == nil, tw))
		// find at boundaries
		probe := []int64{-1, 0, 1, tw - 1, tw, tw + 1, tw + 1000}
		for _, e := range sc {
			probe = append(probe, e[1]-1, e[1], e[1]+1)
		}
		for _, p := range probe {
			i, err := v.Find(p)
			ops = append(ops, c19op{Kind: "find", A: p, Obs: []int64{int64(i)}})
			coq = append(coq, "WFind "+Z(p)+" "+OptZ(err == nil, int64(i)))
			o.Count("find")
			if err == nil {
				o.Count("find_ok")
			}
			// monitor: lookup beyond the total fails
			if terr == nil && p > tw && err == nil {
				o.Fail(MonitorFailure{Property: "C19", Signature: "find-beyond-total-succeeds",
					What: fmt.Sprintf("find(%d) returned %d but total weight is %d", p, i, tw), Replay: ops})
			}
		}
		// choose under known draws
		chooses := 0
		if terr != nil || tw == 0 {
			i, err := v.Choose()
			code := int64(i)
			if err == model.ENOWEIGHTSDEFINED {
				code = -1
			} else if err != nil {
				code = -2
			}
			coq = append(coq, "WChoose 0 "+Z(code))
			ops = append(ops, c19op{Kind: "choose", A: 0, Obs: []int64{code}})
			o.Count("choose_degenerate")
			chooses++
		} else if tw > 0 {
			exhaustive := tw <= 96
			seeds := drawSeeds(tw, rng, exhaustive, 24)
			tally := map[int64]int64{}
			rs := make([]int64, 0, len(seeds))
			for r := range seeds {
				rs = append(rs, r)
			}
			sort.Slice(rs, func(a, b int) bool { return rs[a] < rs[b] })
			for _, r := range rs {
				s := seeds[r]
				rand.Seed(s)
				var i int
				var err error
				paniced := func() (p bool) {
					defer func() {
						if x := recover(); x != nil {
							p = true
							o.Fail(MonitorFailure{Property: "C19", Signature: "choose-panics",
								What: fmt.Sprintf("choose() over total weight %d panicked: %v", tw, x), Replay: ops})
						}
					}()
					i, err = v.Choose()
					return false
				}()
				if paniced {
					break
				}
				code := int64(i)
				if err == model.ENOWEIGHTSDEFINED {
					code = -1
				} else if err != nil {
					code = -2
				}
				tally[code]++
				coq = append(coq, "WChoose "+Z(r)+" "+Z(code))
				ops = append(ops, c19op{Kind: "choose", A: r, Obs: []int64{code}})
				chooses++
			}
			if exhaustive && int64(len(seeds)) == tw {
				o.Count("choose_exhaustive_cases")
				o.CountN("choose_draws_exhaustive", int(tw))
				// monitor: the property's own text on the real code
				if isPlain {
					for i, w := range plain {
						if tally[int64(i)] != w {
							o.Fail(MonitorFailure{Property: "C19", Signature: "draw-count-differs-from-weight",
								What: fmt.Sprintf("weights %v: entry %d has weight %d but is chosen by %d of the %d draws", plain, i, w, tally[int64(i)], tw), Replay: ops})
							break
						}
					}
				}
			} else {
				o.Count("choose_sampled_cases")
				o.CountN("choose_draws_sampled", len(seeds))
			}
		}
		hasSmall := false
		for _, e := range plain {
			if e <= 1 {
				hasSmall = true
			}
		}
		nontrivial := len(sc) >= 2 && hasSmall && chooses > 0
		o.Count(fmt.Sprintf("entries_%s", bucket(len(sc))))
		o.AddCase(List(coq), nontrivial, ops)
		caseNo++
	}
	// the weighted choice where the simulation makes it: chooseTrip on country records loaded from the table
	nTrips := 12
	if tier == "thorough" {
		nTrips = 200
	} else if tier == "search" {
		nTrips = 50
	}
	for c := 0; c < nTrips; c++ {
		coq, ops, nontrivial := genChooseTrips(o, rng.Fork(), filepath.Join(o.dir, "dbs"), c)
		o.AddCase(List(coq), nontrivial, ops)
	}
	o.FlushCases("C19", "From Coq Require Import ZArith List.\nFrom Flap Require Import Run.RunWeights.\nImport ListNotations.\nOpen Scope Z_scope.",
		"list (list wop)", "wmismatches 0%nat", 16)
}

func bucket(n int) string {
	switch {
	case n == 0:
		return "0"
	case n == 1:
		return "1"
	case n <= 4:
		return "2-4"
	case n <= 10:
		return "5-10"
	case n <= 30:
		return "11-30"
	default:
		return ">30"
	}
}

// genChooseTrips stores a few countries (weight vectors with zeros, leading zeros, all-zero and empty
// ones) and calls the real chooseTrip on them in turn, each time with a known pair of underlying draws.
func genChooseTrips(o *Out, rng *Rng, workdir string, caseNo int) (coq []string, ops []c19op, nontrivial bool) {
	d := filepath.Join(workdir, fmt.Sprintf("cars%05d", caseNo))
	os.RemoveAll(d)
	os.MkdirAll(d, 0o755)
	defer os.RemoveAll(d)
	ldb := db.NewLevelDB(d)
	defer ldb.Release()
	cars := model.VerifNewCars(ldb)
	if cars == nil {
		o.Fail(MonitorFailure{Property: "C19", Signature: "harness-cars", What: "cannot create the countries table"})
		return
	}
	type country struct {
		cc       string
		airports []string
		dests    [][]string
		ws       [][]int64
	}
	var cs []country
	nC := rng.Range(2, 4)
	for k := 0; k < nC; k++ {
		c := country{cc: fmt.Sprintf("%c%c%c", 'A'+k, 'A'+k, 'A'+k)}
		nA := rng.Range(1, 4)
		for a := 0; a < nA; a++ {
			c.airports = append(c.airports, fmt.Sprintf("%c%c%cQ", 'A'+k, 'A'+a, 'K'))
			nR := rng.Range(0, 4)
			if rng.Chance(1, 2) {
				nR = rng.Range(1, 4)
			}
			var ds []string
			var ws []int64
			for r := 0; r < nR; r++ {
				ds = append(ds, fmt.Sprintf("%c%c%cZ", 'N'+k, 'A'+a, 'A'+r))
				w := int64([]int{0, 0, 1, 1, 2, 3, 10, 100}[rng.Intn(8)])
				ws = append(ws, w)
			}
			c.dests = append(c.dests, ds)
			c.ws = append(c.ws, ws)
		}
		if err := cars.PutCountry(c.cc, c.airports, c.dests, c.ws); err != nil {
			o.Fail(MonitorFailure{Property: "C19", Signature: "harness-putcountry", What: err.Error()})
			return
		}
		cs = append(cs, c)
	}
	sum := func(ws []int64) int64 {
		var t int64
		for _, w := range ws {
			t += w
		}
		return t
	}
	pick := func(ws []int64, r int64) int { // the reference: draw r in [0,total) selects the first entry whose running total exceeds r
		var cum int64
		for i, w := range ws {
			cum += w
			if r < cum {
				return i
			}
		}
		return -1
	}
	zeroSeen, okSeen := false, false
	for n := 0; n < rng.Range(10, 30); n++ {
		c := cs[rng.Intn(len(cs))]
		var totals []int64
		for _, ws := range c.ws {
			totals = append(totals, sum(ws))
		}
		seed := int64(rng.U64() >> 2)
		rand.Seed(seed)
		r1, r2 := int64(0), int64(0)
		if t := sum(totals); t > 0 {
			r1 = rand.Int63n(t)
			if a := pick(totals, r1); a >= 0 {
				if ta := sum(c.ws[a]); ta > 0 {
					r2 = rand.Int63n(ta)
				}
			}
		}
		rand.Seed(seed)
		var obsA, obsR int64
		func() {
			defer func() {
				if x := recover(); x != nil {
					obsA, obsR = -7, -7
					o.Fail(MonitorFailure{Property: "C19", Signature: "choosetrip-panics", What: fmt.Sprintf("chooseTrip panicked on country %s with airport weights %v: %v", c.cc, c.ws, x), Replay: ops})
				}
			}()
			from, to, err := cars.ChooseTrip(flap.NewPassport("012345678", c.cc))
			if err != nil {
				obsA = int64(model.VerifChooseErrCode(err))
				// which of the two choices failed: the first fails exactly when the country's total weight is 0 or it has no airports
				if sum(totals) > 0 {
					obsR = obsA
					obsA = int64(pick(totals, r1))
				}
				return
			}
			obsA, obsR = -8, -8
			for i, a := range c.airports {
				if flap.NewICAOCode(a) == from {
					obsA = int64(i)
					for j, dcode := range c.dests[i] {
						if flap.NewICAOCode(dcode) == to {
							obsR = int64(j)
						}
					}
				}
			}
		}()
		var aw []string
		for _, ws := range c.ws {
			aw = append(aw, ZList(ws))
		}
		coq = append(coq, fmt.Sprintf("WTrip [%s] %d %d %s %s", strings.Join(aw, "; "), r1, r2, Z(obsA), Z(obsR)))
		ops = append(ops, c19op{Kind: "choosetrip:" + c.cc, A: r1, Obs: []int64{r2, obsA, obsR}})
		// the property's own text on the real call: a zero-weight entry is never chosen
		if obsA >= 0 && obsA < int64(len(totals)) {
			okSeen = true
			if totals[obsA] == 0 {
				o.Fail(MonitorFailure{Property: "C19", Signature: "zero-weight-entry-chosen", What: fmt.Sprintf("chooseTrip on country %s (airport totals %v) chose airport %d, whose weight is 0", c.cc, totals, obsA), Replay: ops})
			} else if obsR >= 0 && obsR < int64(len(c.ws[obsA])) && c.ws[obsA][obsR] == 0 {
				o.Fail(MonitorFailure{Property: "C19", Signature: "zero-weight-entry-chosen", What: fmt.Sprintf("chooseTrip on country %s chose route %d of airport %d, whose weight is 0 (weights %v)", c.cc, obsR, obsA, c.ws[obsA]), Replay: ops})
			}
			if want := int64(pick(totals, r1)); want != obsA {
				o.Fail(MonitorFailure{Property: "C19", Signature: "draw-selects-wrong-entry", What: fmt.Sprintf("chooseTrip on country %s: draw %d of %d selects airport %d, entry %d expected (totals %v)", c.cc, r1, sum(totals), obsA, want, totals), Replay: ops})
			} else if obsR >= 0 {
				if wantR := int64(pick(c.ws[obsA], r2)); wantR != obsR {
					o.Fail(MonitorFailure{Property: "C19", Signature: "draw-selects-wrong-entry", What: fmt.Sprintf("chooseTrip on country %s airport %d: draw %d selects route %d, entry %d expected (weights %v)", c.cc, obsA, r2, obsR, wantR, c.ws[obsA]), Replay: ops})
				}
			}
		}
		for _, ws := range c.ws {
			for _, w := range ws {
				if w == 0 {
					zeroSeen = true
				}
			}
		}
		o.Count("choosetrip_calls")
	}
	return coq, ops, zeroSeen && okSeen
}
