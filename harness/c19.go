package main

import (
	"fmt"
	"math/rand"
	"sort"

	"github.com/richardmorrey/flap/pkg/model"
)

// C19: weighted choice.  Script = building operations + queries with observed answers.

func init() { runners["C19"] = runC19 }

type c19op struct {
	Kind string  `json:"k"`
	A    int64   `json:"a,omitempty"`
	B    int64   `json:"b,omitempty"`
	Obs  []int64 `json:"obs,omitempty"`
}

func pickWeight(r *Rng) int64 {
	switch r.Intn(10) {
	case 0, 1:
		return 0
	case 2, 3, 4:
		return 1
	case 5, 6:
		return int64(r.Range(2, 9))
	case 7:
		return int64(r.Range(10, 200))
	case 8:
		return int64(r.Range(1000, 100000))
	default:
		return r.I64n(1 << 40)
	}
}

// drawSeeds finds, for a total tw, a math/rand seed producing each draw r in [0,tw) (small tw),
// or a sample of seeds (large tw).  Returns map r -> seed.
func drawSeeds(tw int64, rng *Rng, exhaustive bool, samples int) map[int64]int64 {
	res := map[int64]int64{}
	if exhaustive {
		for s := int64(1); int64(len(res)) < tw && s < tw*400+1000; s++ {
			rand.Seed(s)
			r := rand.Int63n(tw)
			if _, ok := res[r]; !ok {
				res[r] = s
			}
		}
		return res
	}
	for i := 0; i < samples; i++ {
		s := int64(rng.U64() >> 2)
		rand.Seed(s)
		res[rand.Int63n(tw)] = s
	}
	return res
}

func runC19(o *Out, rng *Rng, tier string, replay string) {
	ncases := 250
	if tier == "thorough" || tier == "search" {
		ncases = 4000
	}
	o.sum.Rule = "case = random building sequence (add / addIndexWeight / addMultiple / reset) over weights in {0,1,small,large} followed by find() at every cumulative boundary +-1 and choose() under every possible draw (total <= 96, draw learnt by re-seeding math/rand) or 24 sampled draws; non-trivial = at least 2 entries, a zero or unit weight present and at least one choose observed; distinct by hash of the operation list"
	caseNo := 0
	for c := 0; c < ncases; c++ {
		var ops []c19op
		var coq []string
		var v model.VerifWeights
		var plain []int64 // weights when built by plain add only (index = position)
		isPlain := true
		n := rng.Intn(9)
		if rng.Chance(1, 10) {
			n = rng.Range(20, 60)
		}
		for i := 0; i < n; i++ {
			w := pickWeight(rng)
			switch k := rng.Intn(12); {
			case k < 8:
				v.Add(w)
				plain = append(plain, w)
				ops = append(ops, c19op{Kind: "add", A: w})
				coq = append(coq, "WAdd "+Z(w))
			case k < 10:
				idx := int64(rng.Range(-3, 40))
				v.AddIndexWeight(int(idx), w)
				isPlain = false
				ops = append(ops, c19op{Kind: "addidx", A: idx, B: w})
				coq = append(coq, "WAddIdx "+Z(idx)+" "+Z(w))
			case k < 11:
				m := int64(rng.Range(-1, 4))
				v.AddMultiple(w, int(m))
				for j := int64(0); j < m; j++ {
					plain = append(plain, w)
				}
				ops = append(ops, c19op{Kind: "addmul", A: w, B: m})
				coq = append(coq, "WAddMul "+Z(w)+" "+Z(m))
			default:
				if rng.Chance(1, 3) {
					v.Reset()
					plain = nil
					isPlain = true
					ops = append(ops, c19op{Kind: "reset"})
					coq = append(coq, "WReset")
				}
			}
		}
		// observe the scale
		sc := v.Scale()
		var scs []string
		for _, e := range sc {
			scs = append(scs, "("+Z(e[0])+", "+Z(e[1])+")")
		}
		coq = append(coq, "WScale "+List(scs))
		// top
		tw, terr := v.TopWeight()
		coq = append(coq, "WTop "+OptZ(terr == nil, tw))
		// find at boundaries
		probe := []int64{-1, 0, 1, tw - 1, tw, tw + 1, tw + 1000}
		for _, e := range sc {
			probe = append(probe, e[1]-1, e[1], e[1]+1)
		}
		for _, p := range probe {
			i, err := v.Find(p)
			ops = append(ops, c19op{Kind: "find", A: p, Obs: []int64{int64(i)}})
			coq = append(coq, "WFind "+Z(p)+" "+OptZ(err == nil, int64(i)))
			o.Count("find")
			if err == nil {
				o.Count("find_ok")
			}
			// monitor: lookup beyond the total fails
			if terr == nil && p > tw && err == nil {
				o.Fail(MonitorFailure{Property: "C19", Signature: "find-beyond-total-succeeds",
					What: fmt.Sprintf("find(%d) returned %d but total weight is %d", p, i, tw), Replay: ops})
			}
		}
		// choose under known draws
		chooses := 0
		if terr != nil || tw == 0 {
			i, err := v.Choose()
			code := int64(i)
			if err == model.ENOWEIGHTSDEFINED {
				code = -1
			} else if err != nil {
				code = -2
			}
			coq = append(coq, "WChoose 0 "+Z(code))
			ops = append(ops, c19op{Kind: "choose", A: 0, Obs: []int64{code}})
			o.Count("choose_degenerate")
			chooses++
		} else if tw > 0 {
			exhaustive := tw <= 96
			seeds := drawSeeds(tw, rng, exhaustive, 24)
			tally := map[int64]int64{}
			rs := make([]int64, 0, len(seeds))
			for r := range seeds {
				rs = append(rs, r)
			}
			sort.Slice(rs, func(a, b int) bool { return rs[a] < rs[b] })
			for _, r := range rs {
				s := seeds[r]
				rand.Seed(s)
				var i int
				var err error
				paniced := func() (p bool) {
					defer func() {
						if x := recover(); x != nil {
							p = true
							o.Fail(MonitorFailure{Property: "C19", Signature: "choose-panics",
								What: fmt.Sprintf("choose() over total weight %d panicked: %v", tw, x), Replay: ops})
						}
					}()
					i, err = v.Choose()
					return false
				}()
				if paniced {
					break
				}
				code := int64(i)
				if err == model.ENOWEIGHTSDEFINED {
					code = -1
				} else if err != nil {
					code = -2
				}
				tally[code]++
				coq = append(coq, "WChoose "+Z(r)+" "+Z(code))
				ops = append(ops, c19op{Kind: "choose", A: r, Obs: []int64{code}})
				chooses++
			}
			if exhaustive && int64(len(seeds)) == tw {
				o.Count("choose_exhaustive_cases")
				o.CountN("choose_draws_exhaustive", int(tw))
				// monitor: the property's own text on the real code
				if isPlain {
					for i, w := range plain {
						if tally[int64(i)] != w {
							o.Fail(MonitorFailure{Property: "C19", Signature: "draw-count-differs-from-weight",
								What: fmt.Sprintf("weights %v: entry %d has weight %d but is chosen by %d of the %d draws", plain, i, w, tally[int64(i)], tw), Replay: ops})
							break
						}
					}
				}
			} else {
				o.Count("choose_sampled_cases")
				o.CountN("choose_draws_sampled", len(seeds))
			}
		}
		hasSmall := false
		for _, e := range plain {
			if e <= 1 {
				hasSmall = true
			}
		}
		nontrivial := len(sc) >= 2 && hasSmall && chooses > 0
		o.Count(fmt.Sprintf("entries_%s", bucket(len(sc))))
		o.AddCase(List(coq), nontrivial, ops)
		caseNo++
	}
	o.FlushCases("C19", "From Coq Require Import ZArith List.\nFrom Flap Require Import Run.RunWeights.\nImport ListNotations.\nOpen Scope Z_scope.",
		"list (list wop)", "wmismatches 0%nat", 16)
}

func bucket(n int) string {
	switch {
	case n == 0:
		return "0"
	case n == 1:
		return "1"
	case n <= 4:
		return "2-4"
	case n <= 10:
		return "5-10"
	case n <= 30:
		return "11-30"
	default:
		return ">30"
	}
}
