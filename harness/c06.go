package main

import (
	"fmt"

	"github.com/richardmorrey/flap/pkg/flap"
)

func init() { runners["C06"] = runC06 }

// one out-and-back itinerary on a real TripHistory, one update per day, flights reported on the
// day they depart, in order
type c06Plan struct {
	p            thParams
	legs         []flap.VerifFlight // outbound then return
	n1, n2       int
	promises     bool
	priorTrip    bool
	closeNow     uint64 // promises off: first day start >= FlightInterval whole days after the final landing
	limitNow     uint64 // promises on: first day start more than TripLength whole days after the first departure
	boundaryKind string
}

func secondsOfDay(r *Rng) uint64 {
	switch r.Intn(8) {
	case 0:
		return 0
	case 1:
		return 86399
	case 2:
		return 1
	}
	return uint64(r.Intn(86400))
}

func genC06Plan(r *Rng) *c06Plan {
	pl := &c06Plan{}
	fi := int64(r.Range(1, 5))
	if r.Chance(1, 5) {
		fi = int64(r.Range(6, 14))
	}
	pl.n1, pl.n2 = r.Range(1, 4), r.Range(1, 4)
	day0 := uint64(r.Range(17000, 20500))
	t := day0*86400 + secondsOfDay(r)
	if t == 0 {
		t = 1
	}
	airport := 1
	nextAirport := func() int { airport++; return airport }
	var route []int
	route = append(route, 1)
	mkLeg := func(start uint64, from, to int) flap.VerifFlight {
		dur := uint64(r.Range(1800, 50000))
		return flap.VerifFlight{Start: flap.EpochTime(start), End: flap.EpochTime(start + dur), From: icaoOf(from), To: icaoOf(to), Distance: flap.Kilometres(randDist(r))}
	}
	gap := func() uint64 { // between legs of one journey: fewer than fi whole days after landing
		max := uint64(fi)*86400 - 1
		switch r.Intn(5) {
		case 0:
			return max
		case 1:
			return 0
		case 2:
			return max - uint64(r.Intn(3600))
		}
		g := uint64(r.Range(600, 6*3600))
		if g > max {
			g = max
		}
		return g
	}
	// outbound
	for i := 0; i < pl.n1; i++ {
		to := nextAirport()
		f := mkLeg(t, route[len(route)-1], to)
		route = append(route, to)
		pl.legs = append(pl.legs, f)
		t = uint64(f.End) + gap()
	}
	lastOut := pl.legs[len(pl.legs)-1]
	// stay: at least fi whole days after landing
	stay := uint64(fi) * 86400
	switch r.Intn(4) {
	case 0: // exactly
		pl.boundaryKind = "stay_exact"
	case 1:
		stay += 1
	default:
		stay += uint64(r.Intn(6 * 86400))
	}
	t = uint64(lastOut.End) + stay
	// return: a simple path from the destination (reversed route, new stop-overs, or a mix)
	cur := route[len(route)-1]
	used := map[int]bool{cur: true}
	for j := 0; j < pl.n2; j++ {
		var to int
		if j == pl.n2-1 {
			to = 1 // home
			if used[to] {
				to = nextAirport()
			}
		} else if r.Bool() {
			// a stop-over of the outbound route not yet used on the way back (and not home)
			to = 0
			for k := len(route) - 2; k >= 1; k-- {
				if !used[route[k]] {
					to = route[k]
					break
				}
			}
			if to == 0 {
				to = nextAirport()
			}
		} else {
			to = nextAirport()
		}
		f := mkLeg(t, cur, to)
		used[to] = true
		cur = to
		pl.legs = append(pl.legs, f)
		t = uint64(f.End) + gap()
	}
	final := pl.legs[len(pl.legs)-1]
	first := pl.legs[0]
	// closing day with promises off
	pl.closeNow = ((uint64(final.End)+uint64(fi)*86400)/86400 + 0) * 86400
	if pl.closeNow < uint64(final.End)+uint64(fi)*86400 {
		pl.closeNow += 86400
	}
	dClose := int64((pl.closeNow - uint64(first.Start)) / 86400)
	pl.promises = r.Chance(2, 5)
	// limits: whole itinerary within them
	slack := []int64{0, 0, 1, 3, 20, 300}[r.Intn(6)]
	if pl.promises && slack > 20 {
		slack = int64(r.Range(0, 12))
	}
	tl := dClose + slack
	if slack == 0 {
		pl.boundaryKind += "+trip_length_exact"
	}
	if tl < 2*fi {
		tl = 2 * fi
	}
	n := int64(pl.n1 + pl.n2)
	fit := n + 1
	if r.Chance(2, 3) {
		fit = n + 1 + int64(r.Intn(int(50-n)))
	} else {
		pl.boundaryKind += "+flights_in_trip_tight"
	}
	algo := byte(0)
	if pl.promises {
		algo = []byte{1, 2, 0x11, 0x21, 0x31}[r.Intn(5)]
	}
	pl.p = thParams{TL: tl, FIT: fit, FI: fi, Algo: algo}
	// first day start with daysBetween(first.Start, now) > TL
	pl.limitNow = ((uint64(first.Start) + uint64(tl+1)*86400 + 86399) / 86400) * 86400
	pl.priorTrip = r.Chance(1, 2)
	return pl
}

func etOf(es []flap.VerifFlight, f flap.VerifFlight) (int, bool) {
	for _, e := range es {
		if e.Start == f.Start && e.End == f.End && e.From == f.From {
			return int(e.Et), true
		}
	}
	return 0, false
}

func runC06Case(r *Rng) (*thSession, *c06Plan, map[string]int) {
	pl := genC06Plan(r)
	s := &thSession{mode: "full"}
	stat := map[string]int{}
	p := pl.p
	fi := uint64(p.FI)
	firstDay := uint64(pl.legs[0].Start) / 86400
	if pl.priorTrip {
		// an earlier trip, closed by the traveller, well before the itinerary
		d := firstDay - uint64(r.Range(40, 90))
		a := flap.VerifFlight{Start: flap.EpochTime(d*86400 + 30000), End: flap.EpochTime(d*86400 + 40000), From: icaoOf(1), To: icaoOf(40), Distance: 812.5}
		b := flap.VerifFlight{Start: flap.EpochTime((d+9)*86400 + 30000), End: flap.EpochTime((d+9)*86400 + 40000), From: icaoOf(40), To: icaoOf(1), Distance: 812.5}
		s.update(p, d*86400, r)
		s.add(a, r)
		s.update(p, (d+9)*86400, r)
		s.add(b, r)
		s.update(p, (d+10)*86400, r)
		if r.Bool() || pl.promises {
			s.endTrip(r)
		} else {
			for k := uint64(11); s.th.MidTrip() && k < 40; k++ {
				s.update(p, (d+k)*86400, r)
			}
		}
		stat["prior_trip"]++
	}
	endNow := pl.closeNow
	if pl.promises {
		endNow = pl.limitNow
	}
	added := 0
	closedAt := uint64(0)
	lastOut := pl.legs[pl.n1-1]
	final := pl.legs[len(pl.legs)-1]
	// a third of the itineraries are reported ahead of departure (check-in one to three days early), so that
	// daily updates fall between the report of a leg and its departure
	lead := uint64(0)
	if r.Chance(1, 3) {
		lead = uint64(r.Range(1, 3))
		stat["reported_ahead_of_departure"]++
	}
	for now := (firstDay - lead) * 86400; now <= endNow+2*86400; now += 86400 {
		code := s.update(p, now, r)
		if added > 0 && (code == 0 || code == 6) {
			es := s.th.VerifEntries()
			// expected markers for the flights reported so far
			for i := 0; i < added; i++ {
				want := 0
				f := pl.legs[i]
				switch {
				case i == pl.n1-1: // last outbound leg
					if added > pl.n1 || (now >= uint64(lastOut.End) && (now-uint64(lastOut.End))/86400 >= fi) {
						want = 1
					}
				case i == len(pl.legs)-1: // final leg
					due := now >= uint64(final.End) && (now-uint64(final.End))/86400 >= fi
					over := now >= uint64(pl.legs[0].Start) && (now-uint64(pl.legs[0].Start))/86400 > uint64(p.TL)
					if !pl.promises && due {
						want = 2
					} else if pl.promises && over {
						want = 2
					} else if pl.promises && due {
						want = 1
					}
				}
				got, found := etOf(es, f)
				if !found {
					s.fail("C06", "itinerary-flight-missing", fmt.Sprintf("leg %d not found in the history after update(now=%d)", i, now))
				} else if got != want {
					s.fail("C06", "journey-or-trip-marker-wrong", fmt.Sprintf("after update(now=%d, %d of %d legs reported, %d outbound, interval %d, trip length %d, promises %v): leg %d carries marker %d, expected %d (0 flight, 1 journey end, 2 trip end)", now, added, len(pl.legs), pl.n1, p.FI, p.TL, pl.promises, i, got, want))
				}
			}
			mid := s.midByMarkers()
			wantMid := true
			if added == len(pl.legs) {
				if !pl.promises && now >= pl.closeNow {
					wantMid = false
				}
				if pl.promises && now >= pl.limitNow {
					wantMid = false
				}
			}
			if mid != wantMid {
				s.fail("C06", "trip-open-or-closed-on-the-wrong-day", fmt.Sprintf("after update(now=%d): MidTrip=%v, expected %v (final landing %d, interval %d days, first departure %d, trip length %d, promises %v, closing day %d / limit day %d)", now, mid, wantMid, final.End, p.FI, pl.legs[0].Start, p.TL, pl.promises, pl.closeNow, pl.limitNow))
			}
			if !mid && closedAt == 0 {
				closedAt = now
			}
			stat["marker_checks"]++
		}
		// report today's departures, in order
		for added < len(pl.legs) && uint64(pl.legs[added].Start) < now+86400*(1+lead) {
			if s.add(pl.legs[added], r) != 0 {
				s.fail("C06", "itinerary-flight-refused", fmt.Sprintf("AddFlight refused leg %d", added))
			}
			added++
		}
	}
	if closedAt != 0 {
		stat["closed"]++
	}
	s.emitChecks(r, true)
	s.emitDump()
	return s, pl, stat
}

func runC06(o *Out, rng *Rng, tier string, replay string) {
	n := 400
	if tier == "thorough" {
		n = 6000
	} else if tier == "search" {
		n = 1500
	}
	o.sum.Rule = "case = one out-and-back itinerary on a real TripHistory at epoch days 17000-20500: 1-4 outbound legs, a stay of at least the Maximum Flight Interval (exactly, +1 s, up to 6 days more), 1-4 return legs over a simple path (reversed route, new stop-overs or a mix); gaps within a journey from 0 s to one second short of the interval; departures at 00:00:00, 00:00:01, 23:59:59 and random times; interval 1-14 days, trip length from exactly the itinerary's length to +300 days, flights-per-trip from legs+1 to 50; promises off or on (five algorithm bytes); optionally an earlier trip closed by the traveller or by the rules; one update per day from the first departure to two days after the expected closing day, flights reported on their day of departure in order. Every step is compared with the model (full state hash, MidTrip, trip start/end/length, startOfTrip); Go monitors after every update: expected marker of every reported leg (only the last outbound leg a journey end, final leg journey/trip end on the right day), MidTrip turning false exactly on the expected day. non-trivial = a boundary was hit exactly (stay, trip length or flights per trip); distinct by script hash"
	for c := 0; c < n; c++ {
		s, pl, stat := runC06Case(rng.Fork())
		for _, f := range s.fails {
			if f.Property == "C06" {
				o.Fail(f)
			}
		}
		for k, v := range stat {
			o.CountN(k, v)
		}
		o.Count(fmt.Sprintf("outbound_legs_%d", pl.n1))
		o.Count(fmt.Sprintf("return_legs_%d", pl.n2))
		o.Count(fmt.Sprintf("promises_%v", pl.promises))
		if pl.boundaryKind != "" {
			o.Count("boundary_" + pl.boundaryKind)
		}
		thAdd(o, s, pl.boundaryKind != "")
	}
	thFlush(o, "C06")
}
