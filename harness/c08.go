package main

import (
	"fmt"
	"path/filepath"

	"github.com/richardmorrey/flap/pkg/flap"
)

func init() { runners["C08"] = runC08 }

type c08Plan struct {
	legs      []flap.VerifFlight // in flying order
	next      int                // next leg to fly
	ts, te    uint64
	flownAll  bool
	refused   bool
	checkedAt bool
	fresh     bool // the first leg was checked in while the traveller was not mid-trip: the promised legs ARE the open trip
}

// keptDue: the refreshed clearance date of the kept promise has been reached at [now] for sure
// (the check-in time is at most 1500 s before the flight's start; be conservative)
func keptDue(t *flap.Traveller, flightStart uint64) bool {
	clr := t.Kept.Clearance
	if c, err := t.Promises.VerifMatch(t.Kept); err == nil {
		clr = c
	}
	return clr > 0 && uint64(clr)+1500 <= flightStart
}

func genC08(rng *Rng, workdir string) *engSession {
	s := newEngSession(workdir, "C08")
	var p flap.FlapParams
	p.TripLength = flap.Days(rng.Range(8, 30))
	p.FlightsInTrip = uint64(rng.Range(7, 12))
	p.FlightInterval = flap.Days(rng.Range(1, 3))
	p.DailyTotal = flap.Kilometres(2000 + 60000*rng.F01())
	p.MinGrounded = uint64(rng.Range(1, 4))
	p.Promises.Algo = flap.PromisesAlgo(1 + rng.Intn(2))
	if rng.Chance(1, 3) {
		p.Promises.Algo |= 0x10
	}
	if rng.Chance(1, 3) {
		p.Promises.Algo |= 0x20
	}
	p.Promises.MaxPoints = uint32(rng.Range(3, 12))
	p.Promises.MaxDays = flap.Days(rng.Range(10, 40))
	p.Promises.MaxStackSize = flap.StackIndex(rng.Range(1, 4))
	p.Promises.SmoothWindow = flap.Days(rng.Range(0, 4))
	p.Promises.CorrectionSmoothWindow = flap.Days(rng.Range(0, 3))
	p.Promises.Degree = uint32(rng.Range(1, 2))
	if rng.Chance(1, 2) {
		p.TaxiOverhead = flap.Kilometres(10 + 90*rng.F01())
	}
	p.Threads = 1
	s.setParams(p)
	nTrav := rng.Range(1, 3)
	used := map[string]bool{}
	for i := 0; i < nTrav; i++ {
		s.addTraveller(passportWithPrefix(rng, -1, used))
	}
	day := uint64(rng.Range(17500, 19500))
	plans := make([][]*c08Plan, nTrav)
	busyUntil := make([]uint64, nTrav)
	nAir := 6
	days := rng.Range(25, 70)
	// in a fifth of the histories the first traveller plans ten trips ahead at once, so that the book is
	// full and the trip flown first is the one in its oldest slot
	if rng.Chance(1, 5) {
		p.Promises.MaxDays = 70
		s.setParams(p)
		s.update(day * 86400)
		day++
		now := day * 86400
		s.update(now)
		sd := day + 1
		for k := 0; k < 10; k++ {
			a := rng.Intn(nAir)
			b := (a + 1 + rng.Intn(nAir-1)) % nAir
			st := sd*86400 + uint64(rng.Intn(20000))
			legs := []flap.VerifFlight{{Start: flap.EpochTime(st), End: flap.EpochTime(st + 5000), From: icaoOf(a), To: icaoOf(b), Distance: flap.Kilometres(17.77 + 40*rng.F01())}}
			span := uint64(0)
			if rng.Bool() {
				span = uint64(rng.Range(1, 2))
				st2 := (sd+span)*86400 + uint64(rng.Intn(20000))
				legs = append(legs, flap.VerifFlight{Start: flap.EpochTime(st2), End: flap.EpochTime(st2 + 5000), From: icaoOf(b), To: icaoOf(a), Distance: flap.Kilometres(17.77 + 40*rng.F01())})
			}
			code, slot := s.propose(0, legs, 0, now+uint64(10*k))
			s.stat[fmt.Sprintf("c08_ahead_propose_res_%d", code)]++
			if code == 0 && s.make(0, slot, now+uint64(10*k+5), s.props[slot].VerifVersion()) == 0 {
				plans[0] = append(plans[0], &c08Plan{legs: legs, ts: uint64(legs[0].Start), te: uint64(legs[len(legs)-1].End)})
				busyUntil[0] = sd + span
				s.stat["c08_promises_made"]++
				s.stat["c08_planned_ahead"]++
			}
			sd += span + uint64(rng.Range(2, 4))
		}
		if s.stat["c08_planned_ahead"] == 10 {
			s.stat["c08_full_book_planned_ahead"]++
		}
		if days < 40 {
			days = 40
		}
	}
	// in a third of the histories the engine is closed and reopened between some days (the daily update then
	// runs on administrator state that was loaded, not set)
	restarts := rng.Chance(1, 3)
	for d := 0; d < days; d++ {
		now := day * 86400
		if restarts && rng.Chance(1, 5) {
			s.restart()
		}
		s.update(now)
		for i := 0; i < nTrav; i++ {
			// did the update keep the promise of a trip whose last leg was reported?
			for _, pl := range plans[i] {
				if pl.flownAll && !pl.checkedAt {
					pl.checkedAt = true
					t, ok := s.get(i)
					kept := ok && uint64(t.Kept.TripStart) == pl.ts && uint64(t.Kept.TripEnd) == pl.te && !midTripOf(&t)
					if kept {
						s.stat["c08_kept"]++
						if len(pl.legs) >= 3 {
							s.stat["c08_kept_3_or_more_legs"]++
						}
					} else if !pl.refused && pl.fresh {
						a, b, c := t.VerifTripHistory().VerifTripStartEndLength()
						var bk []string
						for _, e := range t.Promises.VerifEntries() {
							if e.TripStart != 0 {
								bk = append(bk, fmt.Sprintf("[%d..%d trav %v clr %d]", e.TripStart, e.TripEnd, float64(e.Travelled), e.Clearance))
							}
						}
						var hs []string
						for _, e := range t.VerifTripHistory().VerifEntries()[:8] {
							hs = append(hs, fmt.Sprintf("(%d %d %v)", e.Et, e.Start, float64(e.Distance)))
						}
						s.fail("C08", "flown-promise-not-kept", fmt.Sprintf("traveller %d flew all %d promised legs (trip %d..%d) within the limits, yet the first update after the last leg did not record the promise as kept / close the trip; midtrip=%v kept=%d..%d open trip %d..%d dist %v; hist %v book %v", i, len(pl.legs), pl.ts, pl.te, t.MidTrip(), t.Kept.TripStart, t.Kept.TripEnd, a, b, float64(c), hs, bk))
					}
				}
			}
			// fly legs due today
			for _, pl := range plans[i] {
				for pl.next < len(pl.legs) && uint64(pl.legs[pl.next].Start)/86400 == day {
					f := pl.legs[pl.next]
					tBefore, had := s.get(i)
					early := uint64(0)
					if pl.next > 0 {
						early = uint64(rng.Range(0, 1500))
					} else {
						pl.fresh = !had || !midTripOf(&tBefore)
					}
					code := s.submit(i, []flap.VerifFlight{f}, uint64(f.Start)-early, true)
					if code == 1 && had && !midTripOf(&tBefore) && keptDue(&tBefore, uint64(f.Start)+1500) {
						s.fail("C08", "kept-promise-due-but-checkin-refused", fmt.Sprintf("traveller %d holds a kept promise whose clearance date has passed, yet the check-in at %d was refused as grounded", i, f.Start))
					}
					if code != 0 {
						pl.refused = true
						if pl.next == 0 || !(had && midTripOf(&tBefore)) {
							s.stat["c08_leg_refused"]++
						}
					} else if had && tBefore.Kept.Clearance != 0 && !midTripOf(&tBefore) && keptDue(&tBefore, uint64(f.Start)) {
						// the check-in that used a kept promise (clearance date reached) must consume it
						tAfter, _ := s.get(i)
						if tAfter.Kept.Clearance != 0 {
							s.fail("C08", "kept-promise-not-consumed", "a check-in accepted at the start of a new trip left the kept promise in place")
						}
						s.stat["c08_kept_promise_used"]++
					}
					pl.next++
					if pl.next == len(pl.legs) {
						pl.flownAll = true
					}
				}
			}
			// plan a new promised trip (also while a kept promise is pending or a trip is in progress)
			if rng.Chance(2, 5) {
				lead := uint64(rng.Range(1, int(p.Promises.MaxDays)-1))
				sd := day + lead
				if sd <= busyUntil[i] {
					sd = busyUntil[i] + 1 + uint64(rng.Intn(3))
				}
				nlegs := rng.Range(1, 6)
				if nlegs >= int(p.FlightsInTrip) {
					nlegs = int(p.FlightsInTrip) - 1
				}
				span := uint64(rng.Range(0, int(p.TripLength)-2))
				var legs []flap.VerifFlight
				a := rng.Intn(nAir)
				sec := uint64(rng.Intn(20000))
				for k := 0; k < nlegs; k++ {
					off := uint64(0)
					if nlegs > 1 {
						off = span * uint64(k) / uint64(nlegs-1)
					}
					b := (a + 1 + rng.Intn(nAir-1)) % nAir
					st := (sd+off)*86400 + sec + uint64(k)*7000
					dist := 137.77 + 9000*rng.F01()
					if rng.Chance(1, 5) {
						dist = 0.1 * float64(rng.Range(1, 9))
					}
					legs = append(legs, flap.VerifFlight{Start: flap.EpochTime(st), End: flap.EpochTime(st + uint64(rng.Range(2000, 6000))), From: icaoOf(a), To: icaoOf(b), Distance: flap.Kilometres(dist)})
					a = b
				}
				order := append([]flap.VerifFlight{}, legs...)
				for k := len(order) - 1; k > 0; k-- { // proposal order differs from flying order
					j := rng.Intn(k + 1)
					order[k], order[j] = order[j], order[k]
				}
				tripEnd := uint64(0)
				if rng.Bool() {
					tripEnd = (sd+span+1)*86400 - 1
				}
				code, slot := s.propose(i, order, tripEnd, now+uint64(rng.Intn(2000)))
				if code == 0 {
					pp := s.props[slot]
					if s.make(i, slot, now+2500, pp.VerifVersion()) == 0 {
						te := uint64(legs[len(legs)-1].End)
						if tripEnd > te {
							te = tripEnd
						}
						plans[i] = append(plans[i], &c08Plan{legs: legs, ts: uint64(legs[0].Start), te: te})
						busyUntil[i] = sd + span
						s.stat["c08_promises_made"]++
					}
				}
			}
		}
		day++
	}
	s.update(day * 86400)
	return s
}

// genC08Burst: a kept promise is still pending (balance negative because the Daily Total was cut after
// the predictions were made) while the traveller books ten or more further trips, pushing the kept
// promise's entry out of the ten-slot book; the next check-in falls after its clearance date.
var burstProj = "C08"

func genC08Burst(rng *Rng, workdir string) *engSession {
	s := newEngSession(workdir, burstProj)
	var p flap.FlapParams
	p.TripLength = flap.Days(rng.Range(6, 12))
	p.FlightsInTrip = uint64(rng.Range(5, 9))
	p.FlightInterval = flap.Days(rng.Range(1, 2))
	p.DailyTotal = flap.Kilometres(500 + 1500*rng.F01())
	p.MinGrounded = uint64(rng.Range(1, 2))
	p.Promises.Algo = flap.PromisesAlgo(1 + rng.Intn(2))
	p.Promises.MaxPoints = uint32(rng.Range(8, 12))
	p.Promises.MaxDays = flap.Days(rng.Range(36, 50))
	p.Promises.MaxStackSize = flap.StackIndex(rng.Range(2, 4))
	p.Promises.SmoothWindow = flap.Days(rng.Range(0, 2))
	p.Promises.Degree = 1
	p.Threads = 1
	s.setParams(p)
	used := map[string]bool{}
	s.addTraveller(passportWithPrefix(rng, -1, used))
	day := uint64(rng.Range(17500, 19500))
	leg := func(d uint64, sec uint64, a, b int, dist float64) flap.VerifFlight {
		st := d*86400 + sec
		return flap.VerifFlight{Start: flap.EpochTime(st), End: flap.EpochTime(st + 4000), From: icaoOf(a), To: icaoOf(b), Distance: flap.Kilometres(dist)}
	}
	for k := 0; k < rng.Range(4, 7); k++ { // warm the predictor up
		s.update(day * 86400)
		day++
	}
	// trip A: out and back, promised
	dA := 1500 + 3000*rng.F01()
	out, back := leg(day+1, 30000, 1, 2, dA/2), leg(day+2, 30000, 2, 1, dA/2)
	s.update(day * 86400)
	code, slot := s.propose(0, []flap.VerifFlight{back, out}, 0, day*86400+10)
	if code != 0 || s.make(0, slot, day*86400+20, s.props[slot].VerifVersion()) != 0 {
		return s
	}
	day++
	s.update(day * 86400)
	s.submit(0, []flap.VerifFlight{out}, uint64(out.Start), true)
	day++
	s.update(day * 86400)
	s.submit(0, []flap.VerifFlight{back}, uint64(back.Start)-100, true)
	day++
	s.update(day * 86400) // keeps the promise
	t, _ := s.get(0)
	if t.Kept.TripStart == 0 {
		return s
	}
	s.stat["c08_kept"]++
	// the Daily Total collapses: the debt will still be there at the clearance date
	p.DailyTotal = p.DailyTotal / flap.Kilometres(20+80*rng.F01())
	s.setParams(p)
	// book 10-12 further small trips, all today
	nb := rng.Range(9, 12)
	var first flap.VerifFlight
	d0 := uint64(t.Kept.Clearance)/86400 + uint64(rng.Range(1, 3))
	// in half of the histories the book is filled exactly (nine further trips) and more trips are promised only
	// once the kept promise's clearance date has passed: only then may its entry leave the book, and the stored
	// clearance date is all the traveller has at the next check-in
	late := rng.Bool()
	if late {
		nb = 9
		d0 = uint64(t.Kept.Clearance)/86400 + uint64(rng.Range(3, 5))
	}
	made := 0
	for k := 0; k < nb; k++ {
		f := leg(d0+uint64(3*k), uint64(rng.Range(1000, 50000)), 1+k%3, 2+k%3, 20.5+40*rng.F01())
		c, sl := s.propose(0, []flap.VerifFlight{f}, 0, day*86400+uint64(100+k))
		if c == 0 && s.make(0, sl, day*86400+uint64(200+k), s.props[sl].VerifVersion()) == 0 {
			made++
			if made == 1 {
				first = f
			}
		}
	}
	s.stat["c08_burst_promises"] += made
	if made == 0 {
		return s
	}
	if late {
		for day <= uint64(t.Kept.Clearance)/86400 {
			day++
			s.update(day * 86400)
		}
		for k := 0; k < 3 && day < uint64(first.Start)/86400; k++ {
			f := leg(d0+uint64(3*(nb+k)), uint64(rng.Range(1000, 50000)), 1+k%3, 2+k%3, 20.5+40*rng.F01())
			c, sl := s.propose(0, []flap.VerifFlight{f}, 0, day*86400+uint64(100+k))
			if c == 0 && s.make(0, sl, day*86400+uint64(200+k), s.props[sl].VerifVersion()) == 0 {
				made++
			}
		}
		if tl, ok := s.get(0); ok && tl.Kept.Clearance != 0 {
			if _, err := tl.Promises.VerifMatch(tl.Kept); err != nil {
				s.stat["c08_kept_entry_left_the_book_after_its_clearance_date"]++
			}
		}
	}
	// live up to the first of them
	for day+1 <= uint64(first.Start)/86400 {
		day++
		s.update(day * 86400)
	}
	tb, _ := s.get(0)
	due := keptDue(&tb, uint64(first.Start)+1500)
	codeF := s.submit(0, []flap.VerifFlight{first}, uint64(first.Start), true)
	if due && tb.Balance < 0 {
		s.stat["c08_kept_used_in_debt_after_burst"]++
		if made >= 10 {
			s.stat["c08_kept_entry_left_the_book"]++
		}
		if codeF == 1 {
			s.fail("C08", "kept-promise-due-but-checkin-refused", fmt.Sprintf("after %d further promises the traveller (balance %v) was refused at %d although the kept promise's clearance date %d had passed", made, float64(tb.Balance), first.Start, tb.Kept.Clearance))
		}
	}
	day++
	s.update(day * 86400)
	return s
}

func runC08(o *Out, rng *Rng, tier string, replay string) {
	n := engCounts(tier)
	o.sum.Rule = "case = engine history in which travellers obtain promises for trips of 1-6 legs (non-dyadic distances, proposal order shuffled against flying order, taxi overhead on/off, explicit or implicit trip end, both predictors, correction options), fly them leg by leg, and keep proposing while trips are in progress and while kept promises are pending; compared under the C08 projection (kept promise, mid-trip flag and promise book after every operation, all result codes); Go monitor: a fully flown promised trip is recorded as kept by the first update after its last leg, the check-in that uses a kept promise consumes it; non-trivial = a promise of 3 or more legs was kept and a kept promise was later used; distinct by script hash"
	wd := filepath.Join(o.dir, "dbs")
	for c := 0; c < n; c++ {
		var s *engSession
		if c%5 == 4 {
			s = genC08Burst(rng.Fork(), wd)
		} else {
			s = genC08(rng.Fork(), wd)
		}
		keepFails(o, s, "C08")
		engNote(o, s)
		o.CountN("histories_with_full_book_planned_ahead", s.stat["c08_full_book_planned_ahead"])
		for k, v := range s.stat {
			if len(k) > 22 && k[:22] == "c08_ahead_propose_res_" {
				o.CountN(k, v)
			}
		}
		o.AddCase(List(s.coq), (s.stat["c08_kept_3_or_more_legs"] > 0 && s.stat["c08_kept_promise_used"] > 0) || s.stat["c08_kept_entry_left_the_book"] > 0, s.ops)
		s.close()
	}
	engFlush(o, "C08")
}

// genC02Kept: the moments around a kept promise's clearance second.  A promised trip is flown and
// kept while the balance stays negative and the clearance date lies days ahead; then either
// (a) the traveller checks in the evening before the clearance day for a flight departing after it
//     (must be refused: the decision is made at the moment of the check-in), and again on the
//     clearance day (must be accepted), or
// (b) a further trip is promised that starts before the kept promise's clearance date (stacking pulls
//     the clearance forward to that trip's start): its check-in, before the old clearance date, must
//     be accepted.
func genC02Kept(rng *Rng, workdir string, proj string) *engSession {
	s := newEngSession(workdir, proj)
	var p flap.FlapParams
	p.TripLength = flap.Days(rng.Range(6, 12))
	p.FlightsInTrip = 6
	p.FlightInterval = 1
	p.DailyTotal = flap.Kilometres(400 + 600*rng.F01())
	p.MinGrounded = 1
	p.Promises.Algo = flap.PromisesAlgo(1 + rng.Intn(2))
	p.Promises.MaxPoints = uint32(rng.Range(4, 10))
	p.Promises.MaxDays = flap.Days(rng.Range(40, 60))
	p.Promises.MaxStackSize = flap.StackIndex(rng.Range(1, 3))
	p.Promises.SmoothWindow = flap.Days(rng.Range(0, 2))
	p.Promises.Degree = 1
	p.Threads = 1
	s.setParams(p)
	used := map[string]bool{}
	s.addTraveller(passportWithPrefix(rng, -1, used))
	day := uint64(rng.Range(17500, 19500))
	leg := func(d uint64, sec uint64, a, b int, dist float64) flap.VerifFlight {
		st := d*86400 + sec
		return flap.VerifFlight{Start: flap.EpochTime(st), End: flap.EpochTime(st + 4000), From: icaoOf(a), To: icaoOf(b), Distance: flap.Kilometres(dist)}
	}
	for k := 0; k < rng.Range(4, 7); k++ {
		s.update(day * 86400)
		day++
	}
	dA := 3000 + 6000*rng.F01() // several days of backfill
	out, back := leg(day+1, 30000, 1, 2, dA/2), leg(day+2, 30000, 2, 1, dA/2)
	s.update(day * 86400)
	code, slot := s.propose(0, []flap.VerifFlight{back, out}, 0, day*86400+10)
	if code != 0 || s.make(0, slot, day*86400+20, s.props[slot].VerifVersion()) != 0 {
		return s
	}
	day++
	s.update(day * 86400)
	s.submit(0, []flap.VerifFlight{out}, uint64(out.Start), true)
	day++
	s.update(day * 86400)
	s.submit(0, []flap.VerifFlight{back}, uint64(back.Start)-100, true)
	day++
	s.update(day * 86400) // keeps the promise
	t, _ := s.get(0)
	if t.Kept.TripStart == 0 || midTripOf(&t) {
		return s
	}
	clr := uint64(t.Kept.Clearance)
	if c, err := t.Promises.VerifMatch(t.Kept); err == nil {
		clr = uint64(c)
	}
	if clr < (day+2)*86400 {
		return s
	}
	if rng.Bool() {
		// (a) live up to the eve of the clearance day, check in for a flight after the clearance second
		for (day+1)*86400 < clr {
			day++
			s.update(day * 86400)
		}
		tb, _ := s.get(0)
		if tb.Balance >= 0 {
			return s
		}
		eve := clr - uint64(rng.Range(1, 30000))
		f := leg(clr/86400, uint64(rng.Range(0, 30000)), 1, 3, 300+500*rng.F01())
		s.stat["c02_evening_before_clearance"]++
		if s.submit(0, []flap.VerifFlight{f}, eve, true) != 0 {
			// properly refused; on the clearance day itself the same flight is accepted
			day++
			s.update(day * 86400)
			s.submit(0, []flap.VerifFlight{f}, clr+uint64(rng.Intn(100)), true)
		}
	} else {
		// (b) a further promised trip that starts before the kept promise's clearance date
		sd := day + 1 + uint64(rng.Intn(int(clr/86400-day)))
		if sd > clr/86400 {
			sd = clr / 86400
		}
		f := leg(sd, uint64(rng.Range(1000, 60000)), 1, 3, 200+300*rng.F01())
		c, sl := s.propose(0, []flap.VerifFlight{f}, 0, day*86400+100)
		if c != 0 || s.make(0, sl, day*86400+200, s.props[sl].VerifVersion()) != 0 {
			return s
		}
		s.stat["c02_trip_stacked_on_kept_promise"]++
		for day < sd {
			day++
			s.update(day * 86400)
		}
		s.submit(0, []flap.VerifFlight{f}, uint64(f.Start), true)
	}
	day++
	s.update(day * 86400)
	return s
}
