module verifharness

go 1.15

require (
	github.com/richardmorrey/flap v0.0.0
	github.com/syndtr/goleveldb v1.0.1-0.20210305035536-64b5b1c73954
)

replace github.com/richardmorrey/flap => /repo
