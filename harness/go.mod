module verifharness

go 1.15

require github.com/richardmorrey/flap v0.0.0

replace github.com/richardmorrey/flap => /repo
