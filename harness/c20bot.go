package main

// C20, stream (A'): the traveller-bot protocol run by the REAL planner code of pkg/model
// (promisesPlanner.prepareWeights / whenWillWeFly, journeyPlanner.planTrip / planInbound /
// submitFlights) on a real flap.Engine, compared step by step with Model/Bot.v and the engine model,
// and decided against the discipline of the whole-history theorem inside Coq.

import (
	"fmt"
	"math/rand"
	"io/ioutil"
	"path/filepath"
	"strings"

	"github.com/richardmorrey/flap/pkg/flap"
	"github.com/richardmorrey/flap/pkg/model"
)

type botAirport struct {
	code     flap.ICAOCode
	lat, lon float64
}

func writeBotAirports(rng *Rng, dir string, n int) []botAirport {
	var aps []botAirport
	var dat strings.Builder
	for k := 0; k < n; k++ {
		code := flap.NewICAOCode(fmt.Sprintf("Q%c%cZ", 'A'+k%26, 'A'+(k/26)%26))
		lat := -60 + 120*float64(k%7)/7 + 5*rng.F01()
		lon := -170 + 340*float64(k%11)/11 + 8*rng.F01()
		aps = append(aps, botAirport{code, lat, lon})
		fmt.Fprintf(&dat, "%d,\"Name %d\",\"City\",\"Country\",\"X%02d\",\"%s\",%v,%v,100,0,\"E\",\"Europe/London\",\"airport\",\"OurAirports\"\n", k+1, k+1, k+1, code.ToString(), lat, lon)
	}
	ioutil.WriteFile(filepath.Join(dir, "airports.dat"), []byte(dat.String()), 0o644)
	return aps
}

func coqZList(l []int64) string {
	var s []string
	for _, x := range l {
		s = append(s, fmt.Sprintf("%d", x))
	}
	return "[" + strings.Join(s, "; ") + "]"
}

// genBotReal: the days of Engine.modelDay for a handful of traveller-bots, each in a band of its own so
// that the band statistics tell which check-ins were accepted.
func genBotReal(rng *Rng, workdir string, stress bool) (s *engSession) {
	s = newEngSession(workdir, "C08")
	// a crash of the planner code under test is a finding with the history so far as its replay
	defer func() {
		if x := recover(); x != nil {
			s.fail("C20", "planner-crashes", fmt.Sprintf("the simulation's planner code panicked: %v", x))
		}
	}()
	s.maskOverride = 1 | 16
	var p flap.FlapParams
	tripLengths := [][]int{{2, 3, 5}, {2, 2}, {2, 3, 5, 7, 7, 14}, {3}, {2, 9}, {1, 2}, {1}}[rng.Intn(7)]
	maxLen := 0
	for _, l := range tripLengths {
		if l > maxLen {
			maxLen = l
		}
	}
	p.TripLength = flap.Days(maxLen + 1 + rng.Range(0, 20))
	p.FlightsInTrip = uint64(rng.Range(3, 50))
	p.FlightInterval = 1
	p.DailyTotal = flap.Kilometres(500 + 20000*rng.F01())
	p.MinGrounded = uint64(rng.Range(1, 4))
	p.Promises.Algo = flap.PromisesAlgo(1 + rng.Intn(2))
	if rng.Chance(1, 4) {
		p.Promises.Algo |= 0x10
	}
	if rng.Chance(1, 4) {
		p.Promises.Algo |= 0x20
	}
	if rng.Chance(1, 4) {
		p.Promises.Algo |= 0x40
	}
	p.Promises.MaxPoints = uint32(rng.Range(3, 20))
	p.Promises.MaxDays = flap.Days(maxLen + rng.Range(2, 40))
	if stress {
		p.Promises.MaxDays = flap.Days(maxLen + rng.Range(60, 120))
	}
	p.Promises.MaxStackSize = flap.StackIndex(rng.Range(1, 4))
	p.Promises.SmoothWindow = flap.Days(rng.Range(0, 5))
	p.Promises.CorrectionSmoothWindow = flap.Days(rng.Range(0, 10))
	p.Promises.Degree = uint32(rng.Range(1, 2))
	p.Threads = 1
	if rng.Chance(1, 3) {
		p.TaxiOverhead = flap.Kilometres(10 + 100*rng.F01())
	}
	s.setParams(p)

	aps := writeBotAirports(rng, s.dir, 6)
	if err := s.eng.Airports.LoadAirports(filepath.Join(s.dir, "airports.dat")); err != nil {
		s.fail("C20", "harness-airports", err.Error())
		return s
	}
	nTrav := rng.Range(2, 5)
	for i := 0; i < nTrav; i++ {
		// passport = band (two digits) + index within the band, as TravellerBots.getPassport builds it
		s.addTraveller(fmt.Sprintf("%02d%07d", i, rng.Intn(10000000)))
	}
	{
		// the population in the journey planner's order (passport numbers ascending): Run/RunSim.v replays the
		// history a second time through Model/Sim.v
		var ks []string
		for _, t := range s.trav {
			ks = append(ks, t.key)
		}
		s.coq = append(s.coq, "EBots ["+strings.Join(ks, "; ")+"]")
	}
	flyProb := []float64{0.05, 0.2, 0.5, 0.9}[rng.Intn(4)]
	if stress {
		flyProb = []float64{0.5, 0.7, 0.9}[rng.Intn(3)]
	}
	planner, err := model.VerifNewPromisesPlanner(flyProb, p.Promises.MaxDays)
	if err != nil {
		s.fail("C20", "harness-planner", err.Error())
		return s
	}
	jp, err := model.VerifNewJourneyPlanner(s.ldb)
	if err != nil {
		s.fail("C20", "harness-journeyplanner", err.Error())
		return s
	}
	bots := model.VerifNewBots(nTrav)
	trial := rng.Range(0, 8)
	days := rng.Range(30, 70)
	if stress {
		days = rng.Range(100, 200)
	}
	day := uint64(rng.Range(17500, 19500))
	if rng.Chance(1, 4) {
		// around the end of a leap year divisible by 400, a leap day, the end of a year divisible by 100
		day = []uint64{11310, 11290, 11015, 47450, 19750}[rng.Intn(5)] + uint64(rng.Intn(20))
	}
	dtFactor := 1.0 - 0.05*rng.F01()
	idx := map[flap.Passport]int{}
	for i, t := range s.trav {
		idx[t.pp] = i
	}
	for d := 0; d < days; d++ {
		now := day * 86400
		debit := d >= trial
		s.update(now)
		// planning (TravellerBots.doPlanTrips): the dice, then whenWillWeFly, then planTrip
		for i := 0; i < nTrav; i++ {
			if rng.F01() > flyProb {
				continue
			}
			length := int64(tripLengths[rng.Intn(len(tripLengths))])
			if int64(p.Promises.MaxDays)-length < 1 {
				continue
			}
			pp := s.trav[i].pp
			scale, err := planner.PrepareDays(s.eng, pp, flap.Days(day), flap.Days(length), flap.Days(d+1))
			if err != nil || len(scale) == 0 {
				s.fail("C20", "prepare-weights-failed", fmt.Sprintf("prepareWeights failed: %v", err))
				continue
			}
			var offered []int64
			for _, e := range scale[:len(scale)-1] {
				offered = append(offered, e[0])
			}
			if scale[len(scale)-1][0] != int64(model.VerifNotPlanning) {
				s.fail("C20", "scale-without-final-entry", "the scale built by prepareWeights does not end with the 'not planning' entry")
			}
			s.coq = append(s.coq, fmt.Sprintf("ECheckPlanDays %s %d %d %d %s", s.trav[i].key, day, length, int64(p.Promises.MaxDays), coqZList(offered)))
			s.stat["c20_real_prepare"]++
			if len(offered) == 0 {
				continue
			}
			// the dice roll that makes the weights choose one of the offered days
			k := rng.Intn(len(offered))
			w := scale[k][1]
			// the dice roll the planner caches is at most 10^9 (dice <= 1): larger values cannot occur in a run
			// (with a high fly probability and a short planning period the scale exceeds 10^9 and is not monotone)
			if w <= 0 || w > 1000000000 || (k > 0 && scale[k-1][1] == w) {
				continue
			}
			a := rng.Intn(len(aps))
			b := (a + 1 + rng.Intn(len(aps)-1)) % len(aps)
			sds, rc := planner.WhenWillWeFly(s.eng, pp, flap.EpochTime(now), aps[a].code, aps[b].code, flap.Days(length), flap.Days(d+1), w)
			la := flap.LatLon{Lat: aps[a].lat, Lon: aps[a].lon}
			lb := flap.LatLon{Lat: aps[b].lat, Lon: aps[b].lon}
			dout, e1 := la.Distance(lb)
			din, e2 := lb.Distance(la)
			if e1 != nil || e2 != nil {
				s.fail("C20", "harness-distance", "distance of generated airports failed")
				continue
			}
			if rc == 4 {
				s.fail("C20", "not-planning-although-day-chosen", fmt.Sprintf("whenWillWeFly answered 'not planning today' for a dice roll of %d that selects day %d of the scale", w, offered[k]))
				continue
			}
			chosen := offered[k]
			if rc == 0 && int64(uint64(sds)/86400) != chosen {
				s.fail("C20", "planner-chose-another-day", fmt.Sprintf("the weights select day %d but whenWillWeFly planned the trip for day %d", chosen, uint64(sds)/86400))
			}
			s.coq = append(s.coq, fmt.Sprintf("EBotPlan %s %d %d %d %d %d %d %d %d", s.trav[i].key, now, chosen, length, icao(aps[a].code), icao(aps[b].code), fbits(float64(dout)), fbits(float64(din)), rc))
			s.ops = append(s.ops, eOp{"op": "botplan", "t": i, "now": now, "day": chosen, "len": length, "from": aps[a].code.ToString(), "to": aps[b].code.ToString(), "res": rc})
			s.checkTrav(i)
			if rc != 0 {
				s.stat["c20_trips_cancelled"]++
				continue
			}
			s.stat["c20_promises_made"]++
			if err := jp.PlanTrip(aps[a].code, aps[b].code, flap.Days(length), pp, sds, s.eng); err != nil {
				s.fail("C20", "plantrip-failed", err.Error())
				continue
			}
			// the outbound journey just planned: the last journey of the traveller's record of that day
			recs, _ := jp.JourneysOn(sds)
			for _, r := range recs {
				if r.Passport == pp && len(r.Journeys) > 0 {
					j := r.Journeys[len(r.Journeys)-1]
					s.coq = append(s.coq, fmt.Sprintf("ECheckOutbound %d %s %d %d %d", chosen, coqFlight(flap.VerifFromFlight(j.Flight)), icao(aps[a].code), icao(aps[b].code), fbits(float64(dout))))
					if j.Jt != 0 || int64(j.Length) != length {
						s.fail("C20", "outbound-journey-wrong", fmt.Sprintf("planTrip stored journey type %d length %d for a trip of %d days", j.Jt, j.Length, length))
					}
				}
			}
		}
		// the check-ins of the day (journeyPlanner.submitFlights)
		recs, err := jp.JourneysOn(flap.EpochTime(now))
		if err != nil {
			s.fail("C20", "journeys-unreadable", err.Error())
		}
		type cnt struct{ taken, refused uint64 }
		before := make([]cnt, nTrav)
		for i := range before {
			before[i].taken, before[i].refused, _ = bots.Counts(i)
		}
		states := make([]flap.Traveller, nTrav)
		had := make([]bool, nTrav)
		for i := range states {
			states[i], had[i] = s.get(i)
		}
		if err := jp.SubmitFlights(bots, s.eng, flap.EpochTime(now), debit); err != nil {
			s.fail("C20", "submitflights-failed", err.Error())
		}
		for _, r := range recs {
			i, ok := idx[r.Passport]
			if !ok {
				s.fail("C20", "unknown-passport-in-planner", r.Passport.ToString())
				continue
			}
			tk, rf, _ := bots.Counts(i)
			dt, dr := tk-before[i].taken, rf-before[i].refused
			if dt+dr != uint64(len(r.Journeys)) {
				s.fail("C20", "journeys-not-all-submitted", fmt.Sprintf("%d journeys planned for the day, %d accepted and %d refused", len(r.Journeys), dt, dr))
				continue
			}
			if dt != 0 && dr != 0 {
				s.fail("C20", "harness-ambiguous-results", "several journeys of one traveller on one day with mixed results")
				continue
			}
			for _, j := range r.Journeys {
				vf := flap.VerifFromFlight(j.Flight)
				s.coq = append(s.coq, fmt.Sprintf("ESubmitB %s %s %s %s", s.trav[i].key, coqFlight(vf), Bool(debit), Bool(dr == 0)))
				s.ops = append(s.ops, eOp{"op": "botsubmit", "t": i, "f": vf, "debit": debit, "accepted": dr == 0})
				leg := "outbound"
				if j.Jt == 1 {
					leg = "inbound"
				}
				if dr != 0 {
					tb := states[i]
					s.fail("C20", "promised-traveller-refused", fmt.Sprintf("real planner: traveller %d holds a made promise, yet the %s check-in on day %d was refused (debit %v, balance %v, mid-trip %v, kept clearance %d)", i, leg, day, debit, float64(tb.Balance), had[i] && tb.MidTrip(), tb.Kept.Clearance))
					s.stat["c20_refused"]++
				} else {
					s.stat["c20_checkins_accepted"]++
					if j.Jt == 0 {
						// the return planned by planInbound: the last journey of the record of the return day
						ods := uint64(j.Flight.Start) - uint64(j.Flight.Start)%86400
						back, _ := jp.JourneysOn(flap.EpochTime(ods + uint64(j.Length)*86400))
						found := false
						for _, br := range back {
							if br.Passport == r.Passport && len(br.Journeys) > 0 {
								bj := br.Journeys[len(br.Journeys)-1]
								if bj.Jt == 1 {
									found = true
									// the distance of the way back, from the airports table
									din := -1.0
									var la, lb *flap.LatLon
									for k := range aps {
										if aps[k].code == j.Flight.ToAirport {
											la = &flap.LatLon{Lat: aps[k].lat, Lon: aps[k].lon}
										}
										if aps[k].code == j.Flight.FromAirport {
											lb = &flap.LatLon{Lat: aps[k].lat, Lon: aps[k].lon}
										}
									}
									if la != nil && lb != nil {
										if dd, err := la.Distance(*lb); err == nil {
											din = float64(dd)
										}
									}
									s.coq = append(s.coq, fmt.Sprintf("ECheckInbound %s %d %s %d", coqFlight(vf), int64(j.Length), coqFlight(flap.VerifFromFlight(bj.Flight)), fbits(din)))
								}
							}
						}
						if !found {
							s.fail("C20", "no-return-planned", fmt.Sprintf("outbound of traveller %d accepted on day %d but no return journey is planned for day %d", i, day, (ods+uint64(j.Length)*86400)/86400))
						}
					}
				}
			}
			s.checkTrav(i)
		}
		if debit && rng.Chance(1, 2) {
			p.DailyTotal = flap.Kilometres(float64(p.DailyTotal) * dtFactor)
			s.setParams(p)
		}
		day++
	}
	s.coq = append(s.coq, "EBots []") // end of the simulated days (Run/RunSim.v): the closing update comes without check-ins
	s.update(day * 86400)
	return s
}

// probeMidnightMaxLength: a configuration whose Maximum Trip Duration equals the bots' trip length, and an
// outbound flight for which buildFlight draws second 0 of the day (rand.Intn can return 0).  At the update after
// the return day the trip has then lasted length+1 whole days, the trip-length rule closes it before the promise
// can be kept, and the bot - in debt, with no kept promise - is refused at its next promised trip.
func probeMidnightMaxLength(rng *Rng, workdir string) []MonitorFailure {
	s := newEngSession(workdir, "C08")
	defer s.close()
	defer func() {
		if x := recover(); x != nil {
			s.fail("C20", "planner-crashes", fmt.Sprintf("probe: the simulation's planner code panicked: %v", x))
		}
	}()
	const L = 3
	var p flap.FlapParams
	p.TripLength, p.FlightsInTrip, p.FlightInterval = L, 10, 1
	p.DailyTotal, p.MinGrounded = 50, 1
	p.Promises.Algo = 1
	p.Promises.MaxPoints, p.Promises.MaxDays, p.Promises.MaxStackSize, p.Promises.SmoothWindow, p.Promises.Degree = 8, 30, 3, 1, 1
	p.Threads = 1
	if s.eng.Administrator.SetParams(p) != nil {
		return nil
	}
	aps := writeBotAirports(rng, s.dir, 2)
	if s.eng.Airports.LoadAirports(filepath.Join(s.dir, "airports.dat")) != nil {
		return nil
	}
	s.addTraveller(fmt.Sprintf("%02d%07d", 0, 1234567))
	pp := s.trav[0].pp
	planner, err1 := model.VerifNewPromisesPlanner(0.9, p.Promises.MaxDays)
	jp, err2 := model.VerifNewJourneyPlanner(s.ldb)
	if err1 != nil || err2 != nil {
		return nil
	}
	bots := model.VerifNewBots(1)
	la := flap.LatLon{Lat: aps[0].lat, Lon: aps[0].lon}
	lb := flap.LatLon{Lat: aps[1].lat, Lon: aps[1].lon}
	dist, _ := la.Distance(lb)
	dur := int(uint64(float64(dist) / 0.244))
	day := uint64(18600)
	for k := 0; k < 4; k++ {
		s.eng.UpdateTripsAndBackfill(flap.EpochTime(day * 86400))
		day++
	}
	plan := func(target uint64, midnight bool) bool {
		scale, err := planner.PrepareDays(s.eng, pp, flap.Days(day), L, 1)
		if err != nil {
			return false
		}
		for k := 0; k+1 < len(scale); k++ {
			if uint64(scale[k][0]) == target && scale[k][1] > 0 && scale[k][1] <= 1000000000 && (k == 0 || scale[k-1][1] < scale[k][1]) {
				sds, rc := planner.WhenWillWeFly(s.eng, pp, flap.EpochTime(day*86400), aps[0].code, aps[1].code, L, 1, scale[k][1])
				if rc != 0 {
					return false
				}
				if midnight { // a seed for which buildFlight's rand.Intn(86400-duration-1) is 0
					for seed := int64(1); seed < 5000000; seed++ {
						rand.Seed(seed)
						if rand.Intn(86400-dur-1) == 0 {
							rand.Seed(seed)
							break
						}
					}
				}
				return jp.PlanTrip(aps[0].code, aps[1].code, L, pp, sds, s.eng) == nil
			}
		}
		return false
	}
	s.eng.UpdateTripsAndBackfill(flap.EpochTime(day * 86400))
	if !plan(day+1, true) || !plan(day+1+L+2, false) {
		return nil
	}
	refusedBefore := uint64(0)
	for d := 0; d < 2*L+6; d++ {
		day++
		now := flap.EpochTime(day * 86400)
		s.eng.UpdateTripsAndBackfill(now)
		recs, _ := jp.JourneysOn(now)
		jp.SubmitFlights(bots, s.eng, now, true)
		_, rf, _ := bots.Counts(0)
		if rf > refusedBefore {
			t, _ := s.get(0)
			leaves := ""
			for _, r := range recs {
				for _, j := range r.Journeys {
					leaves += fmt.Sprintf(" flight leaving at second %d of day %d", uint64(j.Flight.Start)%86400, uint64(j.Flight.Start)/86400)
				}
			}
			s.fail("C20", "midnight-departure-of-a-maximum-length-trip-not-kept", fmt.Sprintf("real planner code, Maximum Trip Duration %d = trip length %d: the outbound of the first promised trip left in second 0 of its day, the update after the return day closed the trip by the trip-length rule instead of keeping the promise (kept clearance %d, balance %v), and the check-in for the next promised trip (%s) was refused", L, L, t.Kept.Clearance, float64(t.Balance), leaves))
			refusedBefore = rf
		}
	}
	return s.fails
}
