package main

import (
	"fmt"
	"path/filepath"
)

func init() {
	runners["C05"] = runC05
	runners["C07"] = runC07
}

func thCounts(tier string) (n int, nlong int) {
	switch tier {
	case "thorough", "search":
		return 3000, 200
	default:
		return 260, 12
	}
}

func runC05(o *Out, rng *Rng, tier string, replay string) {
	n, nlong := thCounts(tier)
	o.sum.Rule = "case = random TripHistory script (daily/skipped/double/mis-timed updates with small and realistic limits, promises on/off, in-order, out-of-order, tied and duplicate adds, removes, traveller close/reopen, histories driven past 100 flights); every step's full state hash, MidTrip, tripStartEndLength and startOfTrip are compared with the model; non-trivial = at least one update closed a trip because a limit was exceeded and at least one ended trip was carried unchanged across a later update; distinct by hash of the script"
	for c := 0; c < n+nlong; c++ {
		s := genTH(rng.Fork(), "full", c >= n)
		for _, f := range s.fails {
			if f.Property == "C05" {
				o.Fail(f)
			}
		}
		o.Count(fmt.Sprintf("flights_max_%s", bucket(s.maxFlights)))
		o.CountN("updates", s.updates)
		o.CountN("limit_closures", s.limitClosures)
		o.CountN("closed_trips_carried_over_update", s.closedKept)
		o.CountN("out_of_order_adds", s.outOfOrder)
		o.CountN("flights_reported_ahead_of_departure", s.ahead)
		o.CountN("removes", s.removes)
		thAdd(o, s, s.limitClosures > 0 && s.closedKept > 0)
	}
	thFlush(o, "C05")
	engineTripStream(o, rng, tier, "C05")
}

// engineTripStream: the trip rules as the daily update applies them to stored travellers - several
// travellers whose records share a table iterator, promises on and off, close/reopen by travellers -
// compared with the model under the property's projection of the stored trip history
func engineTripStream(o *Out, rng *Rng, tier string, prop string) {
	ne := 12
	if tier == "thorough" {
		ne = 120
	} else if tier == "search" {
		ne = 40
	}
	wd := filepath.Join(o.dir, "dbs")
	for c := 0; c < ne; c++ {
		r := rng.Fork()
		cfg := engCfg{nTrav: r.Range(2, 9), days: r.Range(8, 30), promises: -1, samePrefix: true}
		if c%4 == 3 {
			cfg.multiThread = true
		}
		s := genEngine(r, wd, prop, cfg)
		keepFails(o, s, prop)
		o.CountN("engine_updates", s.stat["updates"])
		o.CountN("engine_midtrip_after_update", s.stat["c05_midtrip_after_update"])
		o.CountN("engine_trips_closed_by_update", s.stat["c05_trips_closed_by_update"])
		o.AddCase(List(s.coq), s.stat["c05_trips_closed_by_update"] > 0 && s.stat["c05_midtrip_after_update"] > 0, s.ops)
		s.close()
	}
	engFlush(o, prop+"E")
}

func runC07(o *Out, rng *Rng, tier string, replay string) {
	n, nlong := thCounts(tier)
	o.sum.Rule = "case = random TripHistory script as for C05 but compared under the C07 projection (flight data and order of all 100 slots, indices of traveller-trip-end markers; other markers projected away); Go-side ordered-list oracle (stable insert, keep newest 100); non-trivial = an out-of-order or tied add and a remove happened and the script either filled the history (oldest dropped or too-old refusal) or preserved a traveller trip-end across an update; distinct by hash of the script"
	for c := 0; c < n+nlong; c++ {
		s := genTH(rng.Fork(), "noet", c >= n)
		for _, f := range s.fails {
			if f.Property == "C07" {
				o.Fail(f)
			}
		}
		o.Count(fmt.Sprintf("flights_max_%s", bucket(s.maxFlights)))
		o.CountN("dropped_oldest", s.droppedOldest)
		o.CountN("refused_too_old", s.refusedTooOld)
		o.CountN("out_of_order_adds", s.outOfOrder)
		o.CountN("flights_reported_ahead_of_departure", s.ahead)
		o.CountN("ties", s.ties)
		o.CountN("removes", s.removes)
		o.CountN("tte_preserved_checks", s.ttePreserved)
		thAdd(o, s, (s.outOfOrder > 0 || s.ties > 0) && s.removes > 0 && (s.droppedOldest > 0 || s.refusedTooOld > 0 || s.ttePreserved > 0))
	}
	thFlush(o, "C07")
	engineTripStream(o, rng, tier, "C07")
}
