package main

import "fmt"

func init() {
	runners["C05"] = runC05
	runners["C07"] = runC07
}

func thCounts(tier string) (n int, nlong int) {
	switch tier {
	case "thorough", "search":
		return 3000, 200
	default:
		return 260, 12
	}
}

func runC05(o *Out, rng *Rng, tier string, replay string) {
	n, nlong := thCounts(tier)
	o.sum.Rule = "case = random TripHistory script (daily/skipped/double/mis-timed updates with small and realistic limits, promises on/off, in-order, out-of-order, tied and duplicate adds, removes, traveller close/reopen, histories driven past 100 flights); every step's full state hash, MidTrip, tripStartEndLength and startOfTrip are compared with the model; non-trivial = at least one update closed a trip because a limit was exceeded and at least one ended trip was carried unchanged across a later update; distinct by hash of the script"
	for c := 0; c < n+nlong; c++ {
		s := genTH(rng.Fork(), "full", c >= n)
		for _, f := range s.fails {
			if f.Property == "C05" {
				o.Fail(f)
			}
		}
		o.Count(fmt.Sprintf("flights_max_%s", bucket(s.maxFlights)))
		o.CountN("updates", s.updates)
		o.CountN("limit_closures", s.limitClosures)
		o.CountN("closed_trips_carried_over_update", s.closedKept)
		o.CountN("out_of_order_adds", s.outOfOrder)
		o.CountN("removes", s.removes)
		thAdd(o, s, s.limitClosures > 0 && s.closedKept > 0)
	}
	thFlush(o, "C05")
}

func runC07(o *Out, rng *Rng, tier string, replay string) {
	n, nlong := thCounts(tier)
	o.sum.Rule = "case = random TripHistory script as for C05 but compared under the C07 projection (flight data and order of all 100 slots, indices of traveller-trip-end markers; other markers projected away); Go-side ordered-list oracle (stable insert, keep newest 100); non-trivial = an out-of-order or tied add and a remove happened and the script either filled the history (oldest dropped or too-old refusal) or preserved a traveller trip-end across an update; distinct by hash of the script"
	for c := 0; c < n+nlong; c++ {
		s := genTH(rng.Fork(), "noet", c >= n)
		for _, f := range s.fails {
			if f.Property == "C07" {
				o.Fail(f)
			}
		}
		o.Count(fmt.Sprintf("flights_max_%s", bucket(s.maxFlights)))
		o.CountN("dropped_oldest", s.droppedOldest)
		o.CountN("refused_too_old", s.refusedTooOld)
		o.CountN("out_of_order_adds", s.outOfOrder)
		o.CountN("ties", s.ties)
		o.CountN("removes", s.removes)
		o.CountN("tte_preserved_checks", s.ttePreserved)
		thAdd(o, s, (s.outOfOrder > 0 || s.ties > 0) && s.removes > 0 && (s.droppedOldest > 0 || s.refusedTooOld > 0 || s.ttePreserved > 0))
	}
	thFlush(o, "C07")
}
