package main

import (
	"fmt"

	"github.com/richardmorrey/flap/pkg/flap"
)

// Generator of engine-level histories: a small population living through consecutive days
// (daily update first, then that day's check-ins, proposals, promise-making, traveller
// close/reopen), with planned promised trips flown as promised and unplanned flights.

type engCfg struct {
	nTrav       int
	days        int
	promises    int // 0 none, 1 linear, 2 poly, -1 random
	restarts    bool
	multiThread bool
	bigLedger   bool // few travellers, many flights: ledgers beyond 100 entries
	trialDays   int  // first days without debiting
	paramChanges bool // the administrator changes parameters (incl. the promises algorithm) during the run
	strictDaily bool // C17: exactly one update per day, same-day in-order check-ins, no traveller close/reopen
	kills       bool // sessions that end cleanly (Release) and sessions that are killed (the database is closed without saving the administrator state), in any mix; not replayed by the model
	faults      bool // storage faults are injected into some check-ins and proposals (they must fail and change nothing)
	samePrefix  bool // all record keys start with the same hex digit: one table iterator visits them one after the other
}

type plannedTrip struct {
	outDay, backDay uint64
	out, back       flap.VerifFlight
	slot            int
	made            bool
	issuedVersion   uint64
}

func pickEngParams(rng *Rng, cfg engCfg) flap.FlapParams {
	var p flap.FlapParams
	if rng.Chance(1, 5) {
		p.TripLength, p.FlightsInTrip, p.FlightInterval = 365, 50, 2
	} else {
		p.TripLength = flap.Days(rng.Range(3, 12))
		p.FlightsInTrip = uint64(rng.Range(3, 8))
		p.FlightInterval = flap.Days(rng.Range(1, int(p.TripLength)/2))
	}
	switch rng.Intn(6) {
	case 0:
		p.DailyTotal = 0
	case 1:
		p.DailyTotal = flap.Kilometres(rng.Range(1, 500))
	default:
		p.DailyTotal = flap.Kilometres(1000 + 90000*rng.F01())
	}
	p.MinGrounded = uint64(rng.Range(0, 4))
	algo := cfg.promises
	if algo < 0 {
		algo = rng.Intn(3)
	}
	p.Promises.Algo = flap.PromisesAlgo(algo)
	if algo != 0 {
		if rng.Chance(1, 3) {
			p.Promises.Algo |= 0x10
		}
		if rng.Chance(1, 3) {
			p.Promises.Algo |= 0x20
		}
		if rng.Chance(1, 4) {
			p.Promises.Algo |= 0x40
		}
		if algo == 2 && p.DailyTotal == 0 {
			p.DailyTotal = 777.7
		}
	}
	p.Promises.MaxPoints = uint32(rng.Range(2, 12))
	p.Promises.MaxDays = flap.Days(rng.Range(2, 40))
	p.Promises.MaxStackSize = flap.StackIndex(rng.Range(1, 4))
	p.Promises.SmoothWindow = flap.Days(rng.Range(0, 5))
	p.Promises.CorrectionSmoothWindow = flap.Days(rng.Range(0, 4))
	p.Promises.Degree = uint32(rng.Range(1, 3))
	if rng.Chance(1, 3) {
		p.TaxiOverhead = flap.Kilometres(10 + 90*rng.F01())
	}
	p.Threads = 1
	if cfg.multiThread {
		p.Threads = []byte{0, 1, 2, 4, 8, 16}[rng.Intn(6)]
	} else if rng.Chance(1, 4) {
		p.Threads = 0
	}
	return p
}

func genEngine(rng *Rng, workdir string, proj string, cfg engCfg) *engSession {
	s := newEngSession(workdir, proj)
	s.strictDaily = cfg.strictDaily
	if cfg.faults {
		s.frng = rng.Fork()
	}
	p := pickEngParams(rng, cfg)
	s.setParams(p)
	used := map[string]bool{}
	nib := -1
	if cfg.samePrefix {
		nib = rng.Intn(16)
	}
	for i := 0; i < cfg.nTrav; i++ {
		s.addTraveller(passportWithPrefix(rng, nib, used))
	}
	day := uint64(rng.Range(17500, 19500))
	plans := make([][]*plannedTrip, cfg.nTrav)
	lastBusy := make([]uint64, cfg.nTrav) // last day covered by a planned trip
	nAir := rng.Range(3, 7)
	mk := func(d uint64, sec uint64, from, to int, dist float64) flap.VerifFlight {
		st := d*86400 + sec
		return flap.VerifFlight{Start: flap.EpochTime(st), End: flap.EpochTime(st + uint64(rng.Range(3000, 30000))), From: icaoOf(from), To: icaoOf(to), Distance: flap.Kilometres(dist)}
	}
	dist := func() float64 {
		if cfg.bigLedger {
			return 5 + 300*rng.F01()
		}
		switch rng.Intn(8) {
		case 0:
			return 0.1 * float64(rng.Range(1, 9))
		default:
			return 200 + 9000*rng.F01()
		}
	}
	for d := 0; d < cfg.days; d++ {
		now := day * 86400
		if cfg.kills && (d == 0 || rng.Chance(1, 4)) {
			// the first session always ends cleanly, so that the parameters are on disk
			if d == 0 || rng.Bool() {
				s.restart()
			} else {
				s.kill()
			}
		}
		if doRestart := rng.Chance(1, 4); cfg.restarts && doRestart {
			s.restart()
		}
		if cfg.paramChanges && rng.Chance(1, 12) {
			// the administrator changes the promises algorithm (also to "none" and back) or other settings
			switch rng.Intn(4) {
			case 0:
				p.Promises.Algo = 0
			case 1:
				p.Promises.Algo = flap.PromisesAlgo(1 + rng.Intn(2))
			case 2:
				p.Promises.Algo ^= 0x20
			default:
				p.DailyTotal = p.DailyTotal * flap.Kilometres(0.5+rng.F01())
				p.Promises.MaxPoints = uint32(rng.Range(2, 12))
			}
			s.setParams(p)
			s.checkAdmin()
		}
		if cfg.strictDaily {
			s.update(now)
		} else if rng.Chance(24, 25) {
			s.update(now)
			if rng.Chance(1, 30) {
				s.update(now) // a second update on the same day
			}
		}
		if !cfg.strictDaily && rng.Chance(1, 40) {
			s.update(now + uint64(rng.Range(1, 86399))) // not a day start: refused
		}
		debit := d >= cfg.trialDays
		for i := 0; i < cfg.nTrav; i++ {
			// fly planned legs due today
			for _, pl := range plans[i] {
				if pl.outDay == day {
					s.submit(i, []flap.VerifFlight{pl.out}, uint64(pl.out.Start)-uint64(rng.Range(0, 3000)), debit)
				}
				if pl.backDay == day {
					s.submit(i, []flap.VerifFlight{pl.back}, uint64(pl.back.Start)-uint64(rng.Range(0, 3000)), debit)
				}
			}
			// plan a promised trip
			if p.Promises.Algo != 0 && rng.Chance(1, 3) {
				lead := uint64(rng.Range(1, int(p.Promises.MaxDays)+2))
				maxLen := int(p.TripLength) - 1
				if maxLen > 9 {
					maxLen = 9
				}
				if maxLen < 1 {
					maxLen = 1
				}
				length := uint64(rng.Range(1, maxLen))
				sd := day + lead
				if sd <= lastBusy[i] && rng.Chance(5, 6) {
					sd = lastBusy[i] + 1 + uint64(rng.Intn(3))
				}
				a, b := rng.Intn(nAir), rng.Intn(nAir)
				dd := dist()
				pl := &plannedTrip{outDay: sd, backDay: sd + length,
					out:  mk(sd, uint64(rng.Intn(80000)), a, b, dd),
					back: mk(sd+length, uint64(rng.Intn(50000)), b, a, dd), slot: -1}
				fs := []flap.VerifFlight{pl.out, pl.back}
				if rng.Bool() {
					fs = []flap.VerifFlight{pl.back, pl.out} // proposal order differs from flying order
				}
				tripEnd := uint64(0)
				if rng.Chance(1, 3) {
					tripEnd = (sd+length+1)*86400 - 1
				}
				code, slot := s.propose(i, fs, tripEnd, now+uint64(rng.Intn(3000)))
				if code == 0 {
					pl.slot = slot
					pl.issuedVersion = s.props[slot].VerifVersion()
					if rng.Chance(5, 6) {
						if s.make(i, slot, now+4000, pl.issuedVersion) == 0 {
							pl.made = true
							plans[i] = append(plans[i], pl)
							if pl.backDay > lastBusy[i] {
								lastBusy[i] = pl.backDay
							}
						}
					} else {
						// keep it to replay stale after the next update(s)
						plans[i] = append(plans[i], &plannedTrip{outDay: 0, backDay: 0, slot: slot, issuedVersion: pl.issuedVersion})
					}
				}
			}
			// replay an old proposal (stale unless the model did not change)
			if len(plans[i]) > 0 && rng.Chance(1, 12) {
				pl := plans[i][rng.Intn(len(plans[i]))]
				if pl.slot >= 0 && !pl.made {
					s.make(i, pl.slot, now+5000, pl.issuedVersion)
				}
			}
			// a through check-in whose first flight is an old one reported late while the traveller is between
			// trips and not in debt (the later flights are then judged after the first was debited)
			if !cfg.strictDaily && rng.Chance(1, 6) {
				if t, ok := s.get(i); ok && !t.MidTrip() && t.Balance >= 0 {
					a, b := rng.Intn(nAir), rng.Intn(nAir)
					old := mk(day-uint64(rng.Range(2, 6)), uint64(rng.Intn(50000)), a, b, dist())
					cur := mk(day, uint64(rng.Intn(50000)), b, rng.Intn(nAir), dist())
					s.submit(i, []flap.VerifFlight{old, cur}, day*86400+100, true)
					s.stat["late_first_flight_submissions"]++
				}
			}
			// unplanned flights
			r := rng.Intn(20)
			switch {
			case r < 6:
				n := 1
				if rng.Chance(1, 4) {
					n = rng.Range(2, 3)
				}
				if cfg.bigLedger {
					n = rng.Range(1, 3)
				}
				var fs []flap.VerifFlight
				sec := uint64(rng.Intn(30000))
				switch rng.Intn(12) {
				case 0:
					sec = 0
				case 1:
					sec = 86399 - 2*3600*uint64(n)
				}
				a := rng.Intn(nAir)
				for k := 0; k < n; k++ {
					b := rng.Intn(nAir)
					fs = append(fs, mk(day, sec, a, b, dist()))
					a = b
					sec += uint64(rng.Range(3600, 2*3600))
				}
				if n == 1 && rng.Chance(1, 10) {
					fs[0].Start = flap.EpochTime(day*86400 + 86399)
					fs[0].End = fs[0].Start + 5000
				}
				if !cfg.strictDaily && rng.Chance(1, 15) && n > 1 {
					fs[0], fs[1] = fs[1], fs[0]
				}
				if !cfg.strictDaily && rng.Chance(1, 25) {
					// an old flight reported late (out of order)
					fs = []flap.VerifFlight{mk(day-uint64(rng.Range(1, 9)), sec, a, rng.Intn(nAir), dist())}
				}
				s.submit(i, fs, day*86400+uint64(rng.Intn(int(sec)+1)), debit && !rng.Chance(1, 12))
			case r < 7 && !cfg.strictDaily:
				s.endTrip(i)
				s.checkTrav(i)
			case r < 8 && !cfg.strictDaily:
				s.reopenTrip(i)
				s.checkTrav(i)
			case r < 9:
				s.submit(i, nil, now, debit) // empty submission
			}
		}
		day++
		if !cfg.strictDaily && rng.Chance(1, 14) {
			day += uint64(rng.Range(1, 4)) // skipped days
		}
	}
	s.update(day * 86400)
	for i := range s.trav {
		s.checkTrav(i)
	}
	return s
}

func engNote(o *Out, s *engSession) {
	for k, v := range s.stat {
		o.CountN(k, v)
	}
	o.Count(fmt.Sprintf("travellers_%s", bucket(len(s.trav))))
}


// genC01Full: a traveller whose history holds 100 flights makes a through check-in whose later flight is older
// than all of them: the first flight is taken (and debited), the second refused as too old - the submission as a
// whole must fail and leave the stored record as it was.
func genC01Full(rng *Rng, workdir string) *engSession {
	s := newEngSession(workdir, "C01")
	p := pickEngParams(rng, engCfg{promises: 0})
	s.setParams(p)
	used := map[string]bool{}
	s.addTraveller(passportWithPrefix(rng, -1, used))
	day := uint64(rng.Range(17500, 19500))
	mk := func(st uint64, a, b int) flap.VerifFlight {
		return flap.VerifFlight{Start: flap.EpochTime(st), End: flap.EpochTime(st + 1800), From: icaoOf(a), To: icaoOf(b), Distance: flap.Kilometres(5 + 300*rng.F01())}
	}
	s.update(day * 86400)
	n := 0
	for n < 100+rng.Intn(4) {
		k := rng.Range(1, 3)
		var fs []flap.VerifFlight
		for j := 0; j < k; j++ {
			fs = append(fs, mk(day*86400+uint64(n)*2000+100, n%5, (n+1)%5))
			n++
		}
		s.submit(0, fs, uint64(fs[0].Start), rng.Chance(1, 3))
		if rng.Chance(1, 12) {
			day++
			s.update(day * 86400)
		}
	}
	t, ok := s.get(0)
	if !ok {
		return s
	}
	es := t.VerifTripHistory().VerifEntries()
	oldest := uint64(es[len(es)-1].Start)
	if oldest < 3*86400 {
		return s
	}
	for k := 0; k < 3; k++ {
		cur := mk(day*86400+uint64(n)*2000+100, 1, 2)
		n++
		anc := mk(oldest-uint64(rng.Range(1, 86400)), 2, 3)
		s.submit(0, []flap.VerifFlight{cur, anc}, uint64(cur.Start), true)
		s.stat["submissions_with_a_later_flight_too_old_for_a_full_history"]++
		s.submit(0, []flap.VerifFlight{mk(day*86400+uint64(n)*2000+100, 2, 4)}, day*86400+uint64(n)*2000+100, true)
		n++
	}
	day++
	s.update(day * 86400)
	s.checkTrav(0)
	return s
}
