package main

import (
	"fmt"
	"math"

	"github.com/richardmorrey/flap/pkg/flap"
)

func init() { runners["C18"] = runC18 }

const rEarthKm = 6372.8

// tolerance for "up to rounding": 1 - cos(a) is quantised at 2^-53, which for nearly coincident
// points is worth about 0.1 m of distance; 1 m leaves a safe margin and is far below anything a
// wrong formula would produce
const distTolKm = 1e-3

type llPoint struct{ lat, lon float64 }

func (p llPoint) ll() flap.LatLon { return flap.LatLon{Lat: p.lat, Lon: p.lon} }

func genValidPoint(r *Rng) llPoint {
	switch r.Intn(10) {
	case 0: // pole
		return llPoint{[]float64{90, -90}[r.Intn(2)], 360*r.F01() - 180}
	case 1: // antimeridian
		return llPoint{180*r.F01() - 90, []float64{180, -180}[r.Intn(2)]}
	case 2: // equator / prime meridian / signed zeros
		z := []float64{0, math.Copysign(0, -1)}
		return llPoint{z[r.Intn(2)], z[r.Intn(2)]}
	case 3: // just inside the limits
		return llPoint{math.Nextafter(90, 0) * float64(1-2*r.Intn(2)), math.Nextafter(180, 0) * float64(1-2*r.Intn(2))}
	case 4: // whole degrees
		return llPoint{float64(r.Range(-90, 90)), float64(r.Range(-180, 180))}
	default:
		return llPoint{180*r.F01() - 90, 360*r.F01() - 180}
	}
}

func clampLL(p llPoint) llPoint {
	if p.lat > 90 {
		p.lat = 90
	}
	if p.lat < -90 {
		p.lat = -90
	}
	if p.lon > 180 {
		p.lon -= 360
	}
	if p.lon < -180 {
		p.lon += 360
	}
	return p
}

// related point: coincident, nearly coincident, antipodal, nearly antipodal, same meridian, random
func genRelated(r *Rng, a llPoint) (llPoint, string) {
	eps := math.Pow(10, -float64(r.Range(3, 15))) * (2*r.F01() - 1)
	anti := llPoint{-a.lat, a.lon + 180}
	if anti.lon > 180 {
		anti.lon -= 360
	}
	switch r.Intn(8) {
	case 0:
		return a, "coincident"
	case 1:
		return clampLL(llPoint{a.lat + eps, a.lon + eps*r.F01()}), "near_coincident"
	case 2:
		return anti, "antipodal"
	case 3:
		return clampLL(llPoint{anti.lat + eps, anti.lon + eps*r.F01()}), "near_antipodal"
	case 4:
		return llPoint{180*r.F01() - 90, a.lon}, "same_meridian"
	case 5: // across the antimeridian
		return clampLL(llPoint{a.lat + 10*r.F01() - 5, -a.lon}), "mirror_longitude"
	default:
		return genValidPoint(r), "random"
	}
}

func genInvalidPoint(r *Rng) llPoint {
	switch r.Intn(8) {
	case 0:
		return llPoint{math.Nextafter(90, 100), 10}
	case 1:
		return llPoint{10, math.Nextafter(-180, -200)}
	case 2:
		return llPoint{math.NaN(), 10}
	case 3:
		return llPoint{10, math.Inf(1)}
	case 4:
		return llPoint{-90.5 - 1000*r.F01(), 0}
	case 5:
		return llPoint{0, 180.25 + 1e6*r.F01()}
	case 6:
		return llPoint{math.Inf(-1), math.NaN()}
	default:
		return llPoint{91 + r.F01(), -181 - r.F01()}
	}
}

func dist(a, b llPoint) (float64, error) {
	x := a.ll()
	d, err := x.Distance(b.ll())
	return float64(d), err
}

func runC18(o *Out, rng *Rng, tier string, replay string) {
	n := 400
	if tier == "thorough" {
		n = 8000
	} else if tier == "search" {
		n = 2000
	}
	o.sum.Rule = "case = a triple of coordinates a, b, c (a from poles / antimeridian / signed zeros / just inside the limits / whole degrees / uniform; b and c related to it: coincident, within 1e-3..1e-15 degrees, antipodal, within 1e-3..1e-15 degrees of the antipode, same meridian, mirrored longitude, unrelated) plus invalid coordinates (just outside the limits, NaN, infinities, far outside) and NewFlight calls (zero start, end before/at/after start, times up to 2^64-1 with differences beyond 2^63); every LatLon.Distance / NewFlight result and a sample of math.Cos / math.Asin values are compared bit for bit with the PrimFloat port; Go monitors on the real code: finite, >= 0, <= pi*R (+1 m), d(p,p) = 0 exactly, bit-exact symmetry, triangle inequality within 1 m, invalid coordinates rejected, NewFlight argument checks, recorded distance == Distance(from,to); non-trivial = triple with a degenerate relation (coincident / antipodal / near-*); distinct by coordinates"
	for c := 0; c < n; c++ {
		r := rng.Fork()
		var coq []string
		var rep []map[string]interface{}
		fail := func(sig, what string) {
			o.Fail(MonitorFailure{Property: "C18", Signature: sig, What: what, Replay: rep})
		}
		a := genValidPoint(r)
		b, relB := genRelated(r, a)
		cpt, relC := genRelated(r, []llPoint{a, b}[r.Intn(2)])
		o.Count("relation_" + relB)
		o.Count("relation_" + relC)
		pts := []llPoint{a, b, cpt}
		rep = append(rep, map[string]interface{}{"a": []float64{a.lat, a.lon}, "b": []float64{b.lat, b.lon}, "c": []float64{cpt.lat, cpt.lon}, "relation_b": relB, "relation_c": relC})
		var d [3][3]float64
		for i := 0; i < 3; i++ {
			for j := 0; j < 3; j++ {
				x, err := dist(pts[i], pts[j])
				d[i][j] = x
				if err != nil {
					coq = append(coq, fmt.Sprintf("GDist %d %d %d %d None", fbits(pts[i].lat), fbits(pts[i].lon), fbits(pts[j].lat), fbits(pts[j].lon)))
					fail("valid-coordinates-rejected", fmt.Sprintf("Distance(%v, %v) returned an error for valid coordinates", pts[i], pts[j]))
					continue
				}
				coq = append(coq, fmt.Sprintf("GDist %d %d %d %d (Some %d)", fbits(pts[i].lat), fbits(pts[i].lon), fbits(pts[j].lat), fbits(pts[j].lon), fbits(x)))
				if math.IsNaN(x) || math.IsInf(x, 0) {
					fail("distance-not-finite", fmt.Sprintf("Distance(%v, %v) = %v", pts[i], pts[j], x))
				} else if x < 0 {
					fail("distance-negative", fmt.Sprintf("Distance(%v, %v) = %v", pts[i], pts[j], x))
				} else if x > math.Pi*rEarthKm+distTolKm {
					fail("distance-above-half-circumference", fmt.Sprintf("Distance(%v, %v) = %v > pi*R", pts[i], pts[j], x))
				}
				if i == j && !(x == 0) {
					fail("distance-to-itself-not-zero", fmt.Sprintf("Distance(%v, itself) = %v", pts[i], x))
				}
			}
		}
		for i := 0; i < 3; i++ {
			for j := i + 1; j < 3; j++ {
				if fbits(d[i][j]) != fbits(d[j][i]) {
					fail("distance-not-symmetric", fmt.Sprintf("Distance(%v, %v) = %v but the other way round %v", pts[i], pts[j], d[i][j], d[j][i]))
				}
			}
		}
		for _, t := range [][3]int{{0, 1, 2}, {1, 0, 2}, {0, 2, 1}} {
			x, y, z := t[0], t[1], t[2]
			if d[x][z] > d[x][y]+d[y][z]+distTolKm {
				fail("triangle-inequality-broken", fmt.Sprintf("d(%v,%v)=%v > d(.,%v)=%v + %v", pts[x], pts[z], d[x][z], pts[y], d[x][y], d[y][z]))
			}
		}
		// invalid coordinates on either side
		bad := genInvalidPoint(r)
		bad2 := genInvalidPoint(r)
		for _, pr := range [][2]llPoint{{bad, a}, {a, bad}, {bad, bad}, {bad, bad2}} { // also two invalid points, identical or not
			x, err := dist(pr[0], pr[1])
			if err == nil {
				coq = append(coq, fmt.Sprintf("GDist %d %d %d %d (Some %d)", fbits(pr[0].lat), fbits(pr[0].lon), fbits(pr[1].lat), fbits(pr[1].lon), fbits(x)))
				fail("invalid-coordinates-accepted", fmt.Sprintf("Distance(%v, %v) = %v, no error", pr[0], pr[1], x))
			} else {
				coq = append(coq, fmt.Sprintf("GDist %d %d %d %d None", fbits(pr[0].lat), fbits(pr[0].lon), fbits(pr[1].lat), fbits(pr[1].lon)))
			}
		}
		o.Count("invalid_pairs")
		// NewFlight
		from := flap.Airport{Code: flap.NewICAOCode("AAAA"), Loc: a.ll()}
		to := flap.Airport{Code: flap.NewICAOCode("BBBB"), Loc: b.ll()}
		start := []uint64{0, 1, 1580000000, uint64(r.Range(1, 2000000000)), 1<<63 + uint64(r.Intn(1000)), math.MaxUint64, 1 << 63, 1<<63 - 1}[r.Intn(8)]
		var end uint64
		switch r.Intn(6) {
		case 4: // far below the start (the difference does not fit a signed 64-bit number)
			end = uint64(r.Range(0, 1000))
		case 5:
			end = start/2 + uint64(r.Intn(5))
		case 0:
			end = start
		case 1:
			if start > 0 {
				end = start - 1
			}
		case 2:
			end = start + 1
		default:
			end = start + uint64(r.Range(1, 100000))
		}
		fl, err := flap.NewFlight(from, flap.EpochTime(start), to, flap.EpochTime(end))
		okArgs := start > 0 && end > start
		coq = append(coq, fmt.Sprintf("GNewFlight %d %d %s", start, end, Bool(err == nil)))
		rep = append(rep, map[string]interface{}{"newflight_start": start, "newflight_end": end, "error": fmt.Sprint(err)})
		if okArgs != (err == nil) {
			fail("newflight-argument-check-wrong", fmt.Sprintf("NewFlight(start %d, end %d) error = %v", start, end, err))
		}
		if err == nil && fl != nil {
			vf := flap.VerifFromFlight(*fl)
			if fbits(float64(vf.Distance)) != fbits(d[0][1]) {
				fail("recorded-distance-differs", fmt.Sprintf("NewFlight recorded %v km, Distance(from,to) = %v", float64(vf.Distance), d[0][1]))
			}
			if uint64(vf.Start) != start || uint64(vf.End) != end {
				fail("recorded-times-differ", fmt.Sprintf("NewFlight recorded %d..%d for %d..%d", vf.Start, vf.End, start, end))
			}
			o.Count("flights_constructed")
		}
		// elementary functions on the arguments actually used, and around them
		for k := 0; k < 4; k++ {
			x := (2*r.F01() - 1) * []float64{1e-9, 1, math.Pi, 2 * math.Pi, 7}[r.Intn(5)]
			coq = append(coq, fmt.Sprintf("GCos %d %d", fbits(x), fbits(math.Cos(x))))
			y := []float64{r.F01(), 1 - 1e-12*r.F01(), 1, math.Nextafter(1, 2), -r.F01(), 1e-200 * r.F01(), 0.7 + 1e-9*(r.F01()-0.5)}[r.Intn(7)]
			coq = append(coq, fmt.Sprintf("GAsin %d %d", fbits(y), fbits(math.Asin(y))))
		}
		nontrivial := relB != "random" && relB != "same_meridian" || relC != "random" && relC != "same_meridian"
		o.AddCase(List(coq), nontrivial, rep)
	}
	o.FlushCases("C18", "From Coq Require Import ZArith List.\nFrom Flap Require Import Run.RunGeo.\nImport ListNotations.\nOpen Scope Z_scope.",
		"list (list gcase)", "gg_mismatches 0%nat", 16)
}
